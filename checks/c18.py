"""C18 - Batch DSL resource plumbing through ServiceBackend: the producer uploads every consumed resource file to
exactly the location the consumer downloads it from, the consumer is submitted as a child of the producer, every
resource reference in a command became its quoted local path (one shell word) with the literal text untouched,
and distinct resources never share a path.

Spec specs/dsl/BatchDsl.tla (actions Command/AddExt/WriteOutput/ReadInput(Group)/DeclareGroup, Number,
StartService/Submit/EndService; invariants C18_*), BatchDslGen (program enumeration), BatchDslTrace (B2).
(1) TLC checks the C18 invariants exhaustively on the specification (which models copy_input /
    copy_internal_output / copy_external_output / symlink_input_resource_group and the eager interpolation of
    commands) for universes without late add_extension and without equal basenames in an input group.
(2) TLC enumerates programs - including add_extension after a mention and input groups whose members share a
    basename - ; each is built with the real hailtop.batch API on a real ServiceBackend object whose batch client
    records the job specs (real aioclient.Batch.create_job) instead of POSTing them; every token of every submitted
    command is evaluated by bash.
(3) TLC validates each recorded submission against the specification (trace validation) and judges it with the
    C18 invariants, which are relations over the recorded job specs and the program text only.
"""
from __future__ import annotations

import json

from vlib import tlc

from . import _dsl

LEVEL = "model_checking"
MANIFEST = {
    "technique": "TLA+ spec BatchDsl checked exhaustively by TLC; TLC-enumerated pipelines (exhaustive scenario bounds + simulation) built with the real hailtop.batch API and submitted through the real ServiceBackend._async_run to a recording batch client (real aioclient job specs, no network); every recorded submission validated and judged by TLC (trace validation, B2) with the C18 invariants",
    "text": "All 2-job pipelines of the stated scenario bounds (job resource files with shell-hostile names, add_extension before/between/after mentions, declared resource groups, input files local and remote, input groups, write_output) and random 3-job pipelines are submitted by the real code; for each, TLC checks on the recorded job specs that every consumed file has an input entry landing where the consumer's command reads it whose source is the destination of a producer output taken from where the producer's command writes it, that producers are parents, that literals are untouched and each reference is exactly one bash word, and that distinct resources have distinct local and remote paths.",
    "note": "Trusts TLC; bash as the judge of quoting (each reference token is expanded by a real bash with the job's BATCH_TMPDIR); the parse of the submitted script into flags / mkdir / symlinks / command blocks; validate_file, copy_from_dict and the progress bar are replaced (no network); ServiceBackend is instantiated without __init__. PythonJob, cloudfuse, images and regions are not exercised; tokens are tab separated, a reference directly followed by a digit is outside the universe.",
    "design_ref": "DESIGN.md section 5, C17 / C18",
}

INVS = ["TypeOK", "C17_DepsAreEdges", "C17_Topological", "C17_CyclicRejected", "C17_OnlyCyclicRejected",
        "C17_NothingRunsUnlessNumbered", "C18_Command", "C18_OnePath", "C18_DistinctLocal", "C18_Transfer",
        "C18_Parents", "C18_DistinctRemote", "C18_External", "C18_NoDangling"]

NAMES = ["o", "w's $x"]
GROUP = ["a", "b"]
DEST = ["gs://out/r 1"]
P_REMOTE = {"dir": "gs://in/d1", "base": "x y.txt", "loc": False}
P_LOCAL_SAME = {"dir": "/home/u/d2", "base": "x y.txt", "loc": True}
P_LOCAL = {"dir": "/home/u/d2", "base": "z.txt", "loc": True}
P_IDX = {"dir": "gs://in/d1", "base": "s.bai", "loc": False}
CLEAN_PATHS = [P_REMOTE, P_LOCAL, P_IDX]          # distinct basenames
ALL_PATHS = [P_REMOTE, P_LOCAL_SAME, P_LOCAL, P_IDX]

S = _dsl.tla_set


def base(**kw):
    c = dict(_dsl.BASE_CONSTS, MaxJobs=2, Names=S(NAMES), GroupMembers=S(GROUP), MaxInputs=1, InGroupMembers=S(GROUP),
             Exts=S([".x"]), Dests=S(DEST), MaxCmds=9, Backends='{"service"}', LateExt="TRUE")
    c.update(kw)
    return c


def gen(**kw):
    g = dict(_dsl.GEN_CONSTS, MaxDeps=0, MaxUses=1, MaxEdges=3, MaxExt=1, MaxWrites=1, MaxRefs=1)
    g.update(kw)
    return g


def scenarios(quick):
    files = dict(GroupMembers="{}", MaxInputs=0, InGroupMembers="{}")
    groups = dict(Names="{}", MaxInputs=0, InGroupMembers="{}", Exts="{}")
    inputs = dict(Names=S(["o"]), GroupMembers="{}", Exts="{}", Dests="{}")
    sc = [
        # name, spec constants, generator constants, input paths, is the universe "clean" (all invariants must hold on the spec)
        ("files", base(**files, **({"Names": S(["w's $x"])} if quick else {})), gen(MaxUses=2), [], False),
        ("groups", base(**groups), gen(MaxUses=2, MaxExt=0, DefMembers="FALSE"), [], True),
        ("inputs", base(**inputs), gen(MaxUses=1, MaxExt=0, MaxWrites=0), [P_REMOTE, P_LOCAL_SAME, P_IDX] if quick else ALL_PATHS, False),
    ]
    if not quick:
        sc.append(("groups-members", base(**groups), gen(MaxUses=1, MaxExt=0, DefMembers="TRUE"), [], True))
        sc.append(("deps", base(**files, Names=S(["o"]), Exts="{}"), gen(MaxDeps=2, MaxUses=2, MaxEdges=3, MaxExt=0, Undefined="TRUE"), [], True))
    return sc


def clean_variant(name, c, g, paths):
    """the same scenario without the two constructs the code mishandles: the specification must satisfy C18 there"""
    return dict(c, LateExt="FALSE"), dict(g, SameBase="FALSE"), paths


def run(ctx):
    _dsl.api()
    wd = tlc.prepare_dir(ctx.build / "tlc", ["dsl"])
    gen_actions = ["GNewJob", "GDefine", "GUse", "GDone", "GNumber", "GStartService", "GSubmit", "GEndService"]
    progs_by = {}
    # ---- (1)+(2) specification check on the clean universes; program enumeration on the full ones -------------
    for name, c, g, paths, clean in scenarios(ctx.quick):
        cc, cg, cpaths = (c, g, paths) if clean else clean_variant(name, c, g, paths)
        progs, res = _dsl.generate(ctx, wd, name + "-spec", {**cc, **cg}, full_invariants=INVS, inpaths=cpaths)
        ctx.add_tlc(res, f"exhaustive canonical programs '{name}' (no late add_extension, distinct basenames) + Batch.run() on the spec, "
                         f"all C18 invariants: {len(progs)} programs")
        for v in res.violations:
            ctx.violation(f"spec:{v.name}", {"scenario": name, "config": {**cc, **cg}, "trace": [(h, str(tlc.tlaval.to_py(s))[:1500]) for h, s in v.trace][-4:]})
        if not res.violations:
            ctx.require_covered(res, gen_actions, f"BatchDslGen {name}")
        if not clean:
            progs, res = _dsl.generate(ctx, wd, name, {**c, **g}, inpaths=paths)
            ctx.add_tlc(res, f"program enumeration '{name}' (with late add_extension / equal basenames): {len(progs)} programs")
        progs_by[name] = progs
    if not ctx.quick:
        # sensitivity: with the two constructs the specification itself (a model of the code) violates C18
        for name, c, g, paths, want in [("files", *[(c, g, p) for n, c, g, p, _ in scenarios(False) if n == "files"][0], "C18_"),
                                        ("inputs", *[(c, g, p) for n, c, g, p, _ in scenarios(False) if n == "inputs"][0], "C18_")]:
            cfgname = f"Sens_{name}.cfg"
            mod = _dsl.universe_module(wd, "BatchDslGen", name + "_sens", paths)
            (wd / cfgname).write_text(tlc.mk_cfg(init="GInit", next="GFullNext", constants={**c, **g, "InPaths": "<- U_InPaths"}, invariants=INVS))
            res = tlc.run(wd, mod, cfgname, workers=min(ctx.workers, 4), heap="6g")
            ctx.add_tlc(res, f"sensitivity '{name}': the model of the code with late add_extension / equal basenames must violate C18")
            if not any(v.name.startswith(want) for v in res.violations):
                raise RuntimeError(f"sensitivity run {name}: expected a C18 violation on the specification, got {[v.name for v in res.violations]}")
            ctx.cov.setdefault("spec_counterexamples", []).append({"scenario": name, "invariant": res.violations[0].name,
                                                                   "length": len(res.violations[0].trace)})
    simc = base(MaxJobs=3)
    simg = gen(MaxDeps=2, MaxUses=3, MaxEdges=4, MaxExt=2, MaxWrites=2, MaxRefs=2, MinLen=9, UsedDefsOnly="FALSE")
    progs, res = _dsl.generate(ctx, wd, "sim3", {**simc, **simg}, simulate="num=60" if ctx.quick else "num=500",
                               seed=ctx.seed + 1, inpaths=ALL_PATHS, depth=40)
    ctx.add_tlc(res, f"simulated 3-job programs over the whole universe: {len(progs)} programs")
    if ctx.quick:
        progs = progs[:600]
    progs_by["sim3"] = progs

    # ---- real API + ServiceBackend with a recording client --------------------------------------------------------
    tasks, meta = [], {}
    for name, progs in progs_by.items():
        for k, p in enumerate(progs):
            tasks.append(((name, k), p, ctx.seed + k, tuple(GROUP)))
            meta[(name, k)] = p
    results = _dsl.run_service_many(tasks, ctx.workers)

    # ---- (3) trace validation ------------------------------------------------------------------------------------------
    keys = sorted(results)
    lines = [json.dumps({"ev": _dsl.strip_events(results[k])}) for k in keys]
    tf = wd / "traces.ndjson"
    tf.write_text("\n".join(lines) + "\n")
    tc = base(MaxJobs=3, MaxCmds=99)
    tc["Orders"] = "<- AnyOrders"
    tc["InPaths"] = "<- U_InPaths"
    mod = _dsl.universe_module(wd, "BatchDslTrace", "all", ALL_PATHS)
    (wd / "Trace.cfg").write_text(tlc.mk_cfg(spec="TraceSpec", constants=tc, invariants=INVS, deadlock=True))
    tres = tlc.run(wd, mod, "Trace.cfg", workers=min(ctx.workers, 4 if ctx.quick else 8), env={"TRACE_FILE": tf}, cont=True)
    ctx.add_tlc(tres, f"trace validation of {len(lines)} submissions recorded from the real ServiceBackend")
    nev = sum(len(results[k]) for k in keys)
    if not tres.violations and tres.distinct < nev:
        raise RuntimeError(f"trace validation explored {tres.distinct} states for {nev} events")
    seen_sig = {}
    for v in tres.violations:
        last = v.trace[-1][1] if v.trace else {}
        tid, l = last.get("tid"), last.get("l")
        if not tid:
            ctx.violation(f"trace:{v.kind}:{v.name}", {"raw": str(v.trace)[:2000]})
            continue
        evs = results[keys[tid - 1]]
        nxt = evs[l - 1] if l and l <= len(evs) else None
        prog = meta[keys[tid - 1]]
        sig = f"trace:{v.kind}:{v.name}:{classify(prog, evs, v.name)}" if v.kind == "invariant" else f"trace:{v.kind}:{v.name}:{nxt['a'] if nxt else 'end'}"
        seen_sig[sig] = seen_sig.get(sig, 0) + 1
        if seen_sig[sig] > 3:
            continue
        ctx.violation(sig, {"scenario": keys[tid - 1][0], "program": prog, "position": l, "next_event": nxt,
                            "submitted": [{"job": e["j"], **{k: e["rec"][k] for k in ("parents", "inputs", "outputs", "links")},
                                           "command": e.get("raw_command")} for e in evs if e["a"] == "Submit"]})
    if seen_sig:
        ctx.cov["violating_traces_by_signature"] = seen_sig
    # ---- evidence ------------------------------------------------------------------------------------------------------
    st = {"submitted": 0, "rejected": 0, "refused_call": 0, "with_job_to_job_transfer": 0, "with_group": 0, "with_input": 0,
          "with_extension": 0, "with_write_output": 0, "commands": 0, "reference_tokens": 0}
    distinct = set()
    for k in keys:
        ev = results[k]
        kinds = [e["a"] for e in ev]
        st["submitted"] += "EndService" in kinds
        st["rejected"] += "Reject" in kinds
        st["refused_call"] += any(e.get("out") == "refused" for e in ev)
        refs = [t["r"] for e in ev if e["a"] == "Command" and e["out"] == "ok" for t in e["toks"] if t["t"] == "ref"]
        st["with_job_to_job_transfer"] += any(e["a"] == "Command" and any(t["t"] == "ref" and t["r"]["j"] not in (0, e["j"]) for t in e["toks"]) for e in ev)
        st["with_group"] += any(r["k"] in ("rg", "gm", "ig", "im") for r in refs)
        st["with_input"] += any(r["j"] == 0 for r in refs)
        st["with_extension"] += "AddExt" in kinds
        st["with_write_output"] += "WriteOutput" in kinds
        st["commands"] += sum(len(e["rec"]["cmds"]) for e in ev if e["a"] == "Submit")
        st["reference_tokens"] += len(refs)
        if st and "EndService" in kinds and refs:
            distinct.add(json.dumps(meta[k], sort_keys=True))
    if not ctx.viol and not (st["with_job_to_job_transfer"] and st["with_group"] and st["with_input"] and st["with_write_output"]):
        raise RuntimeError(f"vacuous: {st}")
    ctx.cov.update(traces_validated_against_impl=len(lines), trace_events=nev, evaluations=nev, distinct_nontrivial=len(distinct),
                   exhaustive=True, programs=len(keys), programs_by_scenario={n: len(p) for n, p in progs_by.items()}, submissions=st,
                   rule="TLC exhaustive on BatchDsl(Gen) for the scenario bounds in tlc_runs; every program TLC enumerated (plus simulated 3-job "
                        "ones) built by the real API and submitted by the real ServiceBackend to a recording client; every submission validated "
                        "by TLC; distinct_nontrivial = distinct submitted programs whose commands reference at least one resource")
    mid = next((k for k in keys[len(keys) // 2:] if any(e["a"] == "Submit" and e["rec"]["inputs"] for e in results[k])), keys[0])
    ctx.sample({"kind": "program", "calls": meta[mid]})
    ctx.sample({"kind": "recorded-submission", "jobs": [{"job": e["j"], "rec": e["rec"]} for e in results[mid] if e["a"] == "Submit"]})
    ctx.assume("tokens of a command are separated by one tab; a reference is a whole token",
               "random directory names (job tokens, input roots, uuid path segments) do not collide",
               "a group member is addressed through its group as <group path>.<member> (the '{root}.<member>' pattern declared by the harness)",
               "explicit BatchException from a DSL call ends the program (nothing is submitted); add_extension on an already mentioned "
               "resource and read_input_group with equal basenames may be refused by the implementation")


def classify(prog, evs, inv=""):
    """root-cause class of a violating program, for the signature"""
    mentioned = set()
    late = same = False
    for op in prog:
        if op["op"] == "Command":
            for r in op["refs"]:
                mentioned.add(json.dumps(r, sort_keys=True))
        if op["op"] == "AddExt" and json.dumps(op["r"], sort_keys=True) in mentioned:
            late = True
        if op["op"] == "ReadInputGroup":
            bases = [ip["base"] for ip in op["f"].values()]
            same = same or len(set(bases)) < len(bases)
    causes = (["input-group-equal-basenames"] if same else []) + (["add_extension-after-mention"] if late else [])
    if inv not in ("C18_DistinctLocal", "C18_OnePath"):
        causes.reverse()
    return causes[0] if causes else "other"
