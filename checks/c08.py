"""C08 - accepted job graphs can always finish.

(1) specs/submit/SubmitValidate.tla defines, for every bunch a client can send to an open update (job ids inside/outside the
reserved range; absolute and in-update parents that are missing, later, self, non-positive or valid), whether the property
allows the server to accept it.  TLC enumerates the bunches; each is sent to the REAL `validate_and_clean_jobs` + `_create_jobs`
(over the real SQL on MiniMySQL); TLC judges: accepted exactly when allowed, rejected => tables unchanged, accepted => exactly
the specified job rows and parent edges are stored (B3).
(2) "every committed batch can reach completion once its jobs finish": TLC checks the liveness property C39_Terminates of
specs/batchdb/BatchDBLive.tla under fairness for programs whose dependency edges satisfy the acceptance rule; the code is tied
to BatchDB by the graph replay of C01/C04/C05 (same specification).
"""
from __future__ import annotations

import json

from checks import _batchdb as B
from vlib import tlc

LEVEL = "model_checking"
MANIFEST = {
    "technique": "TLA+ acceptance rule (SubmitValidate.tla) with TLC-enumerated bunches judged against the real validator + _create_jobs on the real SQL (call/return conformance); TLC liveness check of BatchDBLive (committed ~> complete) under fairness",
    "text": "Every bunch over the bounded universe (in-update ids 0..N+1, up to two absolute parents from 0..E+N+1, an in-update parent, one- and two-job bunches) is submitted to the real endpoint logic: it is accepted exactly when all ids are in the reserved range and all parents precede the job and exist; rejections leave every table unchanged. TLC proves on BatchDBLive that all-updates-committed leads to batch complete under fair scheduling, including cancellation at any time.",
    "note": "Trusts TLC, MiniMySQL; the liveness result is about the specification BatchDB, bound to the code by the state-graph replay of the other batch checks; instance failures are excluded from the liveness configurations (attempt ids are finite).",
    "design_ref": "DESIGN.md section 5, C08",
}

N_JOBS = 2
WORLDS = (2, 0)      # E = jobs of the committed earlier update (0: the open update is the first one)


def spec_of(i):
    return {"job_id": i, "absolute_job_group_id": 0, "process": {"type": "docker", "image": "i", "command": ["true"]},
            "resources": {"cpu": "0.25", "memory": "standard", "storage": "1Gi"}}


def world(seed, e_jobs):
    from vlib.batchenv import BatchWorld

    w = BatchWorld(seed=seed)
    b = w.create_batch("tok").value
    if e_jobs == 0:
        u1, _, sj = w.create_update(b, "t1", N_JOBS, 0).value
        assert sj == 1
        return w, b, u1
    u1, _, _ = w.create_update(b, "t1", e_jobs, 0).value
    r = w.create_jobs(b, u1, [spec_of(i) for i in range(1, e_jobs + 1)])
    assert r.kind == "ok", r
    assert w.commit(b, u1).kind == "ok"
    u2, _, sj = w.create_update(b, "t2", N_JOBS, 0).value
    assert sj == e_jobs + 1
    return w, b, u2


def finishes(w, b, u, bunch):
    """Submit the rest of the update, commit it, run every job that becomes Ready to Success; True iff every job of the batch
    ends in a terminal state and the batch is reported complete."""
    rest = [i for i in range(1, N_JOBS + 1) if i not in {j["id"] for j in bunch}]
    if rest:
        r = w.create_jobs(b, u, [spec_of(i) for i in rest])
        if r.kind != "ok":
            return False
    if w.commit(b, u).kind != "ok":
        return False
    w.add_instance("fin-i", cores_mcpu=16000)
    w.activate_instance("fin-i")
    for n in range(20):
        ready = sorted(r["job_id"] for r in w.rows("jobs", batch_id=b) if r["state"] == "Ready")
        if not ready:
            break
        for j in ready:
            a = f"f{n}x{j}"
            r = w.schedule_job(b, j, a, "fin-i")
            if r.kind != "ok" or r.value["rc"] != 0:
                return False
            if w.mark_job_complete(b, j, a, "fin-i", "Success", 1, 2, "completed").kind != "ok":
                return False
    states = {r["job_id"]: r["state"] for r in w.rows("jobs", batch_id=b)}
    return all(s in ("Success", "Failed", "Error", "Cancelled") for s in states.values()) and w.rows("batches", id=b)[0]["state"] == "complete"


def dump(w):
    return {t: sorted(json.dumps(r, sort_keys=True, default=str) for r in tb.rows) for t, tb in w.eng.tables.items()}


def run(ctx):
    from vlib import loader

    loader.install()
    from batch.front_end.validate import validate_and_clean_jobs
    from hailtop.utils.validate import ValidationError

    wd = tlc.prepare_dir(ctx.build / "tlc", ["submit"])
    n_cases = n_acc = 0
    for e_jobs in WORLDS:
        env = {"SV_INPUTS": wd / f"inputs{e_jobs}.ndjson", "SV_CASES": wd / f"cases{e_jobs}.ndjson", "SV_VERDICT": wd / f"verdict{e_jobs}.json",
               "SV_E": str(e_jobs)}
        tlc.evaluate(wd, "SubmitValidateGen", env=env)
        inputs = [json.loads(l)["b"] for l in env["SV_INPUTS"].read_text().splitlines() if l.strip()]
        cases = []
        for n, bunch in enumerate(inputs):
            w, b, u2 = world(ctx.seed, e_jobs)
            before = dump(w)
            specs = []
            for j in bunch:
                s = spec_of(j["id"])
                if j["abs"]:
                    s["absolute_parent_ids"] = list(j["abs"])
                if j["rel"]:
                    s["in_update_parent_ids"] = list(j["rel"])
                specs.append(s)
            try:
                validate_and_clean_jobs(specs)
                r = w.create_jobs(b, u2, specs)
                accepted = r.kind == "ok"
                outcome = repr(r)
            except ValidationError as e:
                accepted = False
                outcome = f"ValidationError({e.reason})"
            after = dump(w)
            rows = sorted(set(r["job_id"] for r in w.rows("jobs", batch_id=b)) - set(range(1, e_jobs + 1)))
            edges = sorted([r["job_id"], r["parent_id"]] for r in w.rows("job_parents", batch_id=b))
            fin = finishes(w, b, u2, bunch) if accepted else False
            cases.append({"world": {"earlier_jobs": e_jobs, "update_size": N_JOBS}, "b": bunch, "accepted": accepted, "unchanged": before == after,
                          "rows": rows, "edges": edges, "fin": fin, "outcome": outcome})
            w.close()
        with open(env["SV_CASES"], "w") as f:
            for c in cases:
                f.write(json.dumps({k: c[k] for k in ("b", "accepted", "unchanged", "rows", "edges", "fin")}) + "\n")
        tlc.evaluate(wd, "SubmitValidateVerdict", env=env)
        verdict = json.loads(env["SV_VERDICT"].read_text())
        assert verdict["n"] == len(cases)
        if verdict["accepted"] == 0 or verdict["accepted"] == len(cases):
            raise RuntimeError("vacuous acceptance rule")
        if not any(c["accepted"] and c["fin"] for c in cases):
            raise RuntimeError("vacuous: no accepted bunch was driven to completion")
        for i in verdict["bad"]:
            c = cases[i - 1]
            kind = ("accepted-cannot-finish" if c["accepted"] and not c["fin"] else "accepted") if c["accepted"] else \
                ("rejected" if c["unchanged"] else "rejected-but-changed")
            ctx.violation(f"submit:{kind}:{'range' if any(not 1 <= j['id'] <= N_JOBS for j in c['b']) else 'parents'}", c)
        n_cases += len(cases)
        n_acc += verdict["accepted"]
        for c in cases[:: max(1, len(cases) // 3)][:3]:
            ctx.sample(c)
    ctx.cov.update(states=2 * n_cases, transitions=n_cases, traces_validated_against_impl=n_cases, evaluations=n_cases,
                   distinct_nontrivial=n_cases, exhaustive=True,
                   rule=f"all one- and two-job bunches of SubmitValidate.Inputs in two worlds (E={WORLDS[0]} committed earlier jobs; E=0: first update), update of "
                        f"N={N_JOBS}; each call/return judged by TLC, every accepted bunch driven to completion on the real procedures; {n_acc} of them must be accepted")
    # (2) liveness on the specification
    P = B.programs()
    for n in (["chain2", "nest_s"] if ctx.quick else ["chain2", "nest_s", "upd2", "diamond", "sib"]):
        res, _wd = B.run_tlc(ctx, P[n], avoid=B.ALL_AVOID, invariants=[], properties=["C39_Terminates"], spec="LiveSpec", tag="live")
        ctx.add_tlc(res, f"BatchDBLive program {n}: C39_Terminates under fairness" + (" (cached)" if getattr(res, "cached", False) else ""))
        for v in res.violations:
            ctx.violation(f"liveness:{v.name}:{n}", {"program": n, "trace": [h for h, _ in v.trace]})
    # (3) the code follows BatchDB where readiness of later-update jobs is computed (commit of update >= 2 with parents that are
    #     Creating / Running / finished / failed): graph replay, as in C05
    B.run_property(ctx, "C08", [], [], ["jpim_u2"], ["jpim_u2", "upd2", "vee2", "upd3"], b2=False, merge=True, budget_quick=15, budget_thorough=200)
    ctx.assume("the schema validator runs before _create_jobs (as in the handlers)", "liveness is a property of BatchDB under the stated fairness")
