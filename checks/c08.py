"""C08 - accepted job graphs can always finish.

(1) specs/submit/SubmitValidate.tla defines, for every bunch a client can send to an open update (job ids inside/outside the
reserved range; absolute and in-update parents that are missing, later, self, non-positive or valid), whether the property
allows the server to accept it.  TLC enumerates the bunches; each is sent to the REAL `validate_and_clean_jobs` + `_create_jobs`
(over the real SQL on MiniMySQL); TLC judges: accepted exactly when allowed, rejected => tables unchanged, accepted => exactly
the specified job rows and parent edges are stored (B3).
(2) "every committed batch can reach completion once its jobs finish": TLC checks the liveness property C39_Terminates of
specs/batchdb/BatchDBLive.tla under fairness for programs whose dependency edges satisfy the acceptance rule; the code is tied
to BatchDB by the graph replay of C01/C04/C05 (same specification).
"""
from __future__ import annotations

import json

from checks import _batchdb as B
from vlib import tlc

LEVEL = "model_checking"
MANIFEST = {
    "technique": "TLA+ acceptance rule (SubmitValidate.tla) with TLC-enumerated bunches judged against the real validator + _create_jobs on the real SQL (call/return conformance); TLC liveness check of BatchDBLive (committed ~> complete) under fairness",
    "text": "Every bunch over the bounded universe (in-update ids 0..N+1, up to two absolute parents from 0..E+N+1, an in-update parent, one- and two-job bunches) is submitted to the real endpoint logic: it is accepted exactly when all ids are in the reserved range and all parents precede the job and exist; rejections leave every table unchanged. TLC proves on BatchDBLive that all-updates-committed leads to batch complete under fair scheduling, including cancellation at any time.",
    "note": "Trusts TLC, MiniMySQL; the liveness result is about the specification BatchDB, bound to the code by the state-graph replay of the other batch checks; instance failures are excluded from the liveness configurations (attempt ids are finite).",
    "design_ref": "DESIGN.md section 5, C08",
}

E_JOBS, N_JOBS = 2, 2


def world(seed):
    from vlib.batchenv import BatchWorld

    w = BatchWorld(seed=seed)
    b = w.create_batch("tok").value
    u1, _, _ = w.create_update(b, "t1", E_JOBS, 0).value
    spec = lambda i: {"job_id": i, "absolute_job_group_id": 0, "process": {"type": "docker", "image": "i", "command": ["true"]},  # noqa: E731
                      "resources": {"cpu": "0.25", "memory": "standard", "storage": "1Gi"}}
    r = w.create_jobs(b, u1, [spec(i) for i in range(1, E_JOBS + 1)])
    assert r.kind == "ok", r
    assert w.commit(b, u1).kind == "ok"
    u2, _, sj = w.create_update(b, "t2", N_JOBS, 0).value
    assert sj == E_JOBS + 1
    return w, b, u2


def dump(w):
    return {t: sorted(json.dumps(r, sort_keys=True, default=str) for r in tb.rows) for t, tb in w.eng.tables.items()}


def run(ctx):
    from vlib import loader

    loader.install()
    from batch.front_end.validate import validate_and_clean_jobs
    from hailtop.utils.validate import ValidationError

    wd = tlc.prepare_dir(ctx.build / "tlc", ["submit"])
    env = {"SV_INPUTS": wd / "inputs.ndjson", "SV_CASES": wd / "cases.ndjson", "SV_VERDICT": wd / "verdict.json"}
    tlc.evaluate(wd, "SubmitValidateGen", env=env)
    inputs = [json.loads(l)["b"] for l in (wd / "inputs.ndjson").read_text().splitlines() if l.strip()]
    if not ctx.quick:
        pass
    cases = []
    for n, bunch in enumerate(inputs):
        w, b, u2 = world(ctx.seed)
        before = dump(w)
        specs = []
        for j in bunch:
            s = {"job_id": j["id"], "absolute_job_group_id": 0, "process": {"type": "docker", "image": "i", "command": ["true"]},
                 "resources": {"cpu": "0.25", "memory": "standard", "storage": "1Gi"}}
            if j["abs"]:
                s["absolute_parent_ids"] = list(j["abs"])
            if j["rel"]:
                s["in_update_parent_ids"] = list(j["rel"])
            specs.append(s)
        try:
            validate_and_clean_jobs(specs)
            r = w.create_jobs(b, u2, specs)
            accepted = r.kind == "ok"
            outcome = repr(r)
        except ValidationError as e:
            accepted = False
            outcome = f"ValidationError({e.reason})"
        after = dump(w)
        rows = sorted(r["job_id"] for r in w.rows("jobs", batch_id=b) if r["job_id"] > E_JOBS or r["update_id"] == u2)
        rows = sorted(set(rows) - set(range(1, E_JOBS + 1)))
        edges = sorted([r["job_id"], r["parent_id"]] for r in w.rows("job_parents", batch_id=b))
        cases.append({"b": bunch, "accepted": accepted, "unchanged": before == after, "rows": rows, "edges": edges, "outcome": outcome})
        w.close()
    with open(env["SV_CASES"], "w") as f:
        for c in cases:
            f.write(json.dumps({k: c[k] for k in ("b", "accepted", "unchanged", "rows", "edges")}) + "\n")
    tlc.evaluate(wd, "SubmitValidateVerdict", env=env)
    verdict = json.loads((wd / "verdict.json").read_text())
    assert verdict["n"] == len(cases)
    if verdict["accepted"] == 0 or verdict["accepted"] == len(cases):
        raise RuntimeError("vacuous acceptance rule")
    for i in verdict["bad"]:
        c = cases[i - 1]
        kind = "accepted" if c["accepted"] else ("rejected" if c["unchanged"] else "rejected-but-changed")
        ctx.violation(f"submit:{kind}:{'range' if any(not 1 <= j['id'] <= N_JOBS for j in c['b']) else 'parents'}", c)
    ctx.cov.update(states=2 * len(cases), transitions=len(cases), traces_validated_against_impl=len(cases), evaluations=len(cases),
                   distinct_nontrivial=len(cases), exhaustive=True,
                   rule=f"all one- and two-job bunches of SubmitValidate.Inputs (E={E_JOBS} existing jobs, update of N={N_JOBS}); each call/return judged by TLC; "
                        f"{verdict['accepted']} of them must be accepted")
    for c in cases[:: max(1, len(cases) // 4)][:4]:
        ctx.sample(c)
    # (2) liveness on the specification
    P = B.programs()
    for n in (["chain2", "nest_s"] if ctx.quick else ["chain2", "nest_s", "upd2", "diamond", "sib"]):
        res, _wd = B.run_tlc(ctx, P[n], avoid=B.ALL_AVOID, invariants=[], properties=["C39_Terminates"], spec="LiveSpec", tag="live")
        ctx.add_tlc(res, f"BatchDBLive program {n}: C39_Terminates under fairness" + (" (cached)" if getattr(res, "cached", False) else ""))
        for v in res.violations:
            ctx.violation(f"liveness:{v.name}:{n}", {"program": n, "trace": [h for h, _ in v.trace]})
    ctx.assume("the schema validator runs before _create_jobs (as in the handlers)", "liveness is a property of BatchDB under the stated fairness")
