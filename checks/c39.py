"""C39 - job lifecycle protocol terminates and never double-runs.

Spec specs/batchdb/BatchDBLive.tla (BatchDB + fairness of the client, the scheduler / canceller loops and the workers).
(1) TLC checks the liveness properties under fairness (every job of a committed batch reaches a terminal state, a cancelled
batch completes) and the safety properties (always-run jobs are never cancelled away, a Creating/Running job has one current
attempt and only that attempt completes it, the current attempt changes only via Ready) for a basket of programs;
(2) B1: the same state graphs are replayed on the real stored procedures and front end (full state comparison);
(3) the real canceller / scheduler selection queries are evaluated in every visited state of the walks and must return exactly
the jobs for which the specification's loop actions (CancelReady, CancelCreating, CancelRunning, Orphan, SchedSelect) are enabled;
(4) overlapping transactions (duplicate and conflicting requests inside one another, DESIGN.md 10.8);
(5) the worker <-> driver protocol at the level of HTTP requests: specs/batchdb/DriverApi.tla (activation / bearer tokens, table and
in-memory instance state, requests in two pieces, driver restart) refines BatchDB (DriverApiRef), i.e. BatchDB's assumption that reports
come only from activated instances is a checked property of the decorators and handlers of batch.driver.main; its state graphs are
replayed on the real route table with real Instance objects and the real InstanceCollectionManager.
"""
from checks import _batchdb as B

LEVEL = "model_checking"
MANIFEST = {
    "technique": "TLA+ spec BatchDBLive: (+ DriverApi: the driver HTTP API refines BatchDB) TLC liveness checking under weak fairness + safety invariants; state-graph replay on the real stored procedures (MiniMySQL) and enabledness comparison of the real scheduler/canceller selection SQL with the specification's loop actions; graph replay by a rewinding traversal (every edge class, then every edge); overlapping-transactions stage: a second request runs inside the first at every statement boundary under a two-transaction isolation model of MiniMySQL and the result must be that of a serial order in the TLC graph",
    "text": "All interleavings of the driver loops, worker reports (duplicated, late, stale) and cancellation for small batches are explored; under fairness all-updates-committed leads to every job terminal and the batch complete, also after cancellation; always-run jobs are never cancelled; only the current attempt completes a running job. The code is tied to the specification by replaying the graph on the real SQL and by checking that the driver's real selection queries select exactly the jobs the specification's loop actions are enabled for.",
    "note": "Driver API stage: task manager, resource manager, instance config, job_config and the HTTP client to the worker are faked; an authenticated worker reporting about attempts never dispatched to it is outside what the API can refuse (recorded as a note, feature `rogue`). Liveness is a property of the specification (fairness assumptions stated in BatchDBLive.tla); instance failures are excluded from the liveness configurations; the autoscaler is not modelled (it creates instances, which the model has from the start). The overlapping-transactions stage trusts the isolation model of vlib/minimysql/isolation.py (consistent reads, predicate locks approximating InnoDB next-key locks, lock waits; approximations err towards waiting).",
    "design_ref": "DESIGN.md section 5, C39",
}

INVARIANTS = ["C39_AlwaysRunRuns", "C39_CurrentAttempt"]
PROPERTIES = ["C39_OnlyCurrentCompletes", "C39_NoDoubleRun"]
LIVE = ["C39_Terminates", "C39_CancelledCompletes"]
QUICK = ['chain2', 'alw', 'jpim_s']
THOROUGH = ['chain2', 'alw', 'jpim_s', 'nest_s', 'sib', 'upd2', 'diamond', 'retry_s', 'grp2', 'jpim_u2', 'vee2', 'upd3']
LIVE_QUICK = ["chain2", "alw", "jpim_s"]
LIVE_THOROUGH = ["chain2", "alw", "nest_s", "jpim_s", "sib", "upd2", "diamond", "grp2", "clean"]


def run(ctx):
    P = B.programs()
    for n in (LIVE_QUICK if ctx.quick else LIVE_THOROUGH):
        import dataclasses

        live_p = dataclasses.replace(P[n], features=tuple(f for f in P[n].features if f != "deactivate"))   # no instance failures
        res, _wd = B.run_tlc(ctx, live_p, avoid=B.ALL_AVOID, invariants=INVARIANTS, properties=LIVE + PROPERTIES, spec="LiveSpec", tag="live39")
        ctx.add_tlc(res, f"BatchDBLive program {n}: liveness {LIVE} under fairness" + (" (cached)" if getattr(res, "cached", False) else ""))
        for v in res.violations:
            ctx.violation(f"liveness:{v.name}:{n}", {"program": n, "trace": [h for h, _ in v.trace][-25:]})
    B.run_property(ctx, "C39", INVARIANTS, PROPERTIES, QUICK, THOROUGH, (), check_selection=True, overlap=['chain2', 'alw'])
    # additional stage: BatchDB's environment assumption ("reports come only from activated instances, about dispatched attempts")
    # as a checked property of the driver's HTTP API: specs/batchdb/DriverApi.tla (+ DriverApiRef: it implements BatchDB), its state
    # graph replayed on the real route table of batch.driver.main (decorators, handlers, job.py wrappers, Instance objects)
    from checks import _driverapi

    _driverapi.run_api_stage(ctx)
    # what the driver sends to the workers when it ends an attempt itself (DELETE to the instance, also for a stale attempt: otherwise
    # the superseded attempt keeps running beside the current one): specs/batchdb/DriverOut.tla replayed on the real job.py wrappers
    from checks import _drivermem

    steps, _nw = _drivermem.run_memory_stage(ctx, budget_quick=15, model_only_program=False)
    ctx.cov["evaluations"] += steps
