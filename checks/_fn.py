"""Helpers shared by the call/return (B3) checks C11, C15, C19, C25: sharded TLC verdicts.

The verdict over the recorded cases is always computed by TLC (an ASSUME-only module reading an ndjson file).
For large case files the file is cut into shards, each judged by its own TLC process (constant evaluation is
single threaded); indices reported by a shard are shifted back to global case numbers.
"""
from __future__ import annotations

import json
import shutil
from concurrent.futures import ThreadPoolExecutor
from pathlib import Path

from vlib import tlc


def sharded_verdict(ctx, spec_dirs, module, lines, env, cases_key, verdict_key, nshards, timeout=3000):
    """lines: list of JSON strings (one case each).  Returns [(offset, verdict_dict)] in shard order."""
    n = len(lines)
    nshards = max(1, min(nshards, (n + 999) // 1000))
    size = (n + nshards - 1) // nshards
    for stale in ctx.build.glob("verdict*"):  # shard directories of an earlier run
        shutil.rmtree(stale, ignore_errors=True)
    jobs = []
    for k in range(nshards):
        part = lines[k * size:(k + 1) * size]
        if not part:
            continue
        wd = tlc.prepare_dir(ctx.build / f"verdict{k}", spec_dirs)
        (wd / "cases.ndjson").write_text("\n".join(part) + "\n")
        e = dict(env)
        e[cases_key] = wd / "cases.ndjson"
        e[verdict_key] = wd / "verdict.json"
        jobs.append((k * size, wd, e, len(part)))

    def one(job):
        off, wd, e, cnt = job
        (Path(wd) / "eval.cfg").write_text("")
        res = tlc.run(wd, module, "eval.cfg", workers=1, env=e, timeout=timeout, heap="3g", java_opts=("-XX:ParallelGCThreads=2",))
        if res.violations:
            raise tlc.TLCFailure(f"evaluation of {module} failed: {[v.name for v in res.violations]}\n{res.out[-2000:]}")
        v = json.loads((Path(wd) / "verdict.json").read_text())
        if v["n"] != cnt:
            raise RuntimeError(f"verdict shard at {off}: TLC judged {v['n']} of {cnt} cases")
        return off, v

    with ThreadPoolExecutor(max_workers=len(jobs)) as ex:
        return list(ex.map(one, jobs))


def require_reachable(ctx, wd, module, consts, invariants, workers=2, together=True):
    """Reachability companions: every listed invariant is the negation of a situation the real invariants talk
    about and must be VIOLATED on a small configuration; otherwise the model-checking result would be
    vacuous -> machinery failure.  together=True: one TLC run with -continue (every violating state is reported,
    good for small graphs); together=False: one run per invariant, each stopping at its first violation."""
    groups = [list(invariants)] if together else [[i] for i in invariants]
    seen = set()
    for g in groups:
        (wd / "Reach.cfg").write_text(tlc.mk_cfg(constants=consts, invariants=g))
        r = tlc.run(wd, module, "Reach.cfg", workers=workers, cont=together)
        seen |= {v.name for v in r.violations}
    missing = [i for i in invariants if i not in seen]
    if missing:
        raise RuntimeError(f"vacuous: {module} never reaches the situations {missing}")
