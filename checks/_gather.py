"""Harness for C20: the real bounded_gather2* helpers (and OnlineBoundedGather2) under the single-stepped loop.

The caller holds one permit of the semaphore (the documented use); every partial function awaits a future that
the harness resolves (Complete / Fail).  Tasks are identified by creation order through the loop's task factory.
"""
from __future__ import annotations

import asyncio
import functools
from asyncio import tasks as _tasks

from vlib.vloop import VLoop

from . import _aio


class TaskError(Exception):
    def __init__(self, t):
        super().__init__(f"task {t} failed")
        self.t = t


class DriverError(Exception):
    t = "D"


class GatherImpl:
    """bounded_gather2 in one of its three modes."""

    def __init__(self, utils, n, bound, mode, wrapper=False):
        self.utils = utils
        self.wrapper = wrapper   # call bounded_gather(parallelism=bound) instead of bounded_gather2 under a held permit
        self.n, self.bound, self.mode = n, bound, mode
        self.loop = VLoop()
        self.created = []      # every task in creation order: [main, task 1, ..., task n]
        self.loop.set_task_factory(self._factory)
        self.sema = asyncio.Semaphore(bound)
        self.gate_of_task = {}  # task object -> the future its body awaits
        self.gate = {}          # partial function index -> future
        self.outcome = {t: "none" for t in range(1, n + 1)}
        self.main = None
        self.began = False
        self.result = None      # ("returned", list) | ("raised", exc)
        self.gfut = None
        self.gcb = None
        self.wcb = None

    def _factory(self, loop, coro, **kw):
        t = _tasks._PyTask(coro, loop=loop, **kw)
        self.created.append(t)
        return t

    # ---- what the environment provides
    def body(self, t):
        """A partial function whose work starts when it is CALLED (like a run_in_executor / ensure_future partial): the gate exists from
        the call on, so a helper that calls it before holding the semaphore is seen running outside the bound."""
        g = self.loop.create_future()
        self.gate_of_task[asyncio.current_task()] = g
        self.gate[t] = g

        async def wait():
            return await g

        return wait()

    async def _main(self):
        self.began = True
        kw = {"return": {"return_exceptions": True}, "raise": {}, "raise_cancel": {"cancel_on_error": True}}[self.mode]
        if self.wrapper:
            impl = self
            real = asyncio.Semaphore

            class Recorded(real):
                def __init__(s, value=1, **k):
                    super().__init__(value, **k)
                    impl.sema = s

            mod_asyncio = self.utils.asyncio
            try:
                mod_asyncio.Semaphore = Recorded
                coro = self.utils.bounded_gather(*[functools.partial(self.body, t) for t in range(1, self.n + 1)], parallelism=self.bound, **kw)
            finally:
                pass
            try:
                try:
                    r = await coro
                finally:
                    mod_asyncio.Semaphore = real
                self.result = ("returned", r)
            except BaseException as e:  # noqa: B036
                self.result = ("raised", e)
            return
        await self.sema.acquire()   # the caller's own permit
        try:
            r = await self.utils.bounded_gather2(self.sema, *[functools.partial(self.body, t) for t in range(1, self.n + 1)], **kw)
            self.result = ("returned", r)
        except BaseException as e:  # noqa: B036 - recorded, the task itself ends normally
            self.result = ("raised", e)

    # ---- actions
    def start(self):
        self.main = self.loop.create_task(self._main(), name="H")
        self._scan()

    def complete(self, t):
        self.outcome[t] = "ok"
        self.gate[t].set_result(("val", t))
        self._scan()

    def fail(self, t):
        self.outcome[t] = "fail"
        self.gate[t].set_exception(TaskError(t))
        self._scan()

    def fail_cancelled(self, t):
        """The future the body awaits is cancelled: the body raises CancelledError on its own."""
        self.outcome[t] = "cancel"
        self.gate[t].cancel()
        self._scan()

    def step(self):
        if not self.loop.step():
            raise RuntimeError("nothing to step")
        self._scan()

    def _scan(self):
        m = self.main
        if m is not None and not m.done():
            w = getattr(m, "_fut_waiter", None)
            if w is not None and type(w).__name__ == "_GatheringFuture":
                self.gfut = w
        cbs = [cb for t in self.created[1:] for cb, _ctx in list(getattr(t, "_callbacks", []) or [])]
        cbs += [h._callback for h in _aio.ready_handles(self.loop)]
        for cb in cbs:
            nm = getattr(cb, "__name__", "")
            if nm == "_done_callback":
                self.gcb = cb
            elif nm == "_on_completion":
                self.wcb = cb

    # ---- projection
    def task(self, i):
        return self.created[i] if i < len(self.created) else None

    def index_of(self, task):
        for i, t in enumerate(self.created):
            if t is task:
                return i
        return None

    def _tpc(self, i):
        t = self.task(i)
        if t is None:
            return "idle"
        if t.done():
            if t.cancelled():
                return "cancelled"
            if t.exception() is not None:
                return "failed"
            r = t.result()
            if self.mode == "return" and isinstance(r, tuple) and len(r) == 2 and r[1] is not None:
                return "cancelled" if isinstance(r[1], asyncio.CancelledError) else "failed"
            return "done"
        g = self.gate_of_task.get(t)
        if g is None:
            w = getattr(t, "_fut_waiter", None)
            if w is None:
                return "new"
            if w.cancelled():
                return "canc_acq"
            return "grant" if w.done() else "acq"
        if not g.done():
            return "run"
        if g.cancelled():
            return "canc_run"
        return "res_fail" if g.exception() is not None else "res_ok"

    def _sq(self):
        out = []
        for f in list(self.sema._waiters or ()):
            who = "?"
            for i, t in enumerate(self.created):
                if getattr(t, "_fut_waiter", None) is f and not t.done():
                    who = i
            st = "c" if f.cancelled() else ("g" if f.done() else "p")
            out.append((who, st))
        return tuple(out)

    def _rq(self):
        out = []
        for h in _aio.ready_handles(self.loop):
            t = _aio.handle_task(h)
            if t is not None:
                i = self.index_of(t)
                out.append(("H", 0) if i == 0 else ("T", i if i is not None else "?"))
                continue
            nm = _aio.handle_fn_name(h)
            if nm == "_done_callback":
                out.append(("G", self.index_of(h._args[0]) or "?"))
            elif nm == "_on_completion":
                out.append(("W", 0))
            else:
                out.append(("?", nm))
        return tuple(out)

    def _hpc(self):
        m = self.main
        if m is None:
            return "idle"
        if m.done():
            return "end"
        if not self.began:
            return "new"
        w = getattr(m, "_fut_waiter", None)
        if w is None:
            return "?"
        if w is self.gfut:
            return "gwoken" if w.done() else "gather"
        if any(w is f for f in (self.sema._waiters or ())):
            return "hacq"
        return "wwoken" if w.done() else "wait"

    def _exc_id(self, e):
        if isinstance(e, TaskError):
            return e.t
        if isinstance(e, asyncio.CancelledError):
            return 0
        return repr(e)

    def project(self):
        n = self.n
        gout, gexc = "none", 0
        if self.gfut is not None:
            if not self.gfut.done():
                gout = "pending"
            elif self.gfut.cancelled():
                gout, gexc = "exc", 0
            elif self.gfut.exception() is not None:
                gout, gexc = "exc", self._exc_id(self.gfut.exception())
            else:
                gout = "ok"
        hres, hexc, hval = "none", 0, ()
        if self.result is not None:
            hres = self.result[0]
            if hres == "raised":
                hexc = self._exc_id(self.result[1])
            else:
                vals = []
                for r in self.result[1]:
                    if self.mode == "return":
                        v, e = r
                        vals.append((e is None, v[1] if e is None else self._exc_id(e)))
                    else:
                        vals.append((True, r[1]) if isinstance(r, tuple) and r[0] == "val" else (False, repr(r)))
                hval = tuple(vals)
        cbs = {}
        for i in range(1, n + 1):
            t = self.task(i)
            names = []
            if t is not None and not t.done():
                for cb, _ctx in list(getattr(t, "_callbacks", []) or []):
                    nm = getattr(cb, "__name__", "")
                    names.append({"_done_callback": "G", "_on_completion": "W"}.get(nm, "?"))
            cbs[i] = tuple(names)
        return {
            "mode": self.mode, "bound": self.bound,
            "value": self.sema._value, "sq": self._sq(),
            "tpc": {i: self._tpc(i) for i in range(1, n + 1)},
            "must": {i: bool(getattr(self.task(i), "_must_cancel", False)) for i in range(1, n + 1)},
            "cbs": cbs, "hpc": self._hpc(), "gout": gout, "gexc": gexc,
            "nfin": _aio.closure_vars(self.gcb).get("nfinished", 0) if self.gcb else 0,
            "wcount": _aio.closure_vars(self.wcb).get("counter", 0) if self.wcb else 0,
            "rq": self._rq(), "hres": hres, "hexc": hexc, "hval": hval, "outcome": dict(self.outcome),
        }

    def close(self):
        errs = [e for e in self.loop.errors if "exception was never retrieved" not in str(e.get("message", ""))]
        _aio.shutdown_loop(self.loop)
        if errs:
            raise RuntimeError(f"event loop errors: {errs}")


GATHER_VIEW = ("mode", "bound", "value", "sq", "tpc", "must", "cbs", "hpc", "gout", "gexc", "nfin", "wcount", "rq", "hres",
               "hexc", "hval", "outcome")


def gather_view(st):
    out = {}
    for k in GATHER_VIEW:
        v = st[k]
        if k in ("tpc", "must", "outcome"):
            v = _aio.fn(v)
        elif k == "cbs":
            v = {i: tuple(x) for i, x in _aio.fn(v).items()}
        elif k == "sq":
            v = tuple((e["who"], e["st"]) for e in v)
        elif k == "rq":
            v = tuple(tuple(e) for e in v)
        elif k == "hval":
            v = tuple((e["ok"], e["id"]) for e in v)
        out[k] = v
    return out


def gather_apply(impl, name, args, src=None, dst=None):
    if name == "Start":
        impl.start()
    elif name == "Complete":
        impl.complete(args[0])
    elif name == "Fail":
        impl.fail(args[0])
    elif name == "FailCancelled":
        impl.fail_cancelled(args[0])
    elif name == "Resolve":
        {"ok": impl.complete, "fail": impl.fail, "cancel": impl.fail_cancelled}[args[1]](args[0])
    elif name == "Step":
        impl.step()
    else:
        raise RuntimeError(f"unknown action {name}")


def gather_post_json(p):
    n = len(p["tpc"])
    return {"value": p["value"], "sq": [[w, s] for (w, s) in p["sq"]], "tpc": [p["tpc"][i] for i in range(1, n + 1)],
            "must": [p["must"][i] for i in range(1, n + 1)], "cbs": [list(p["cbs"][i]) for i in range(1, n + 1)],
            "hpc": p["hpc"], "gout": p["gout"], "gexc": p["gexc"], "nfin": p["nfin"], "wcount": p["wcount"],
            "rq": [[a, b] for (a, b) in p["rq"]], "hres": p["hres"], "hexc": p["hexc"],
            "hval": [[ok, i] for (ok, i) in p["hval"]], "outcome": [p["outcome"][i] for i in range(1, n + 1)]}


# =====================================================================================================
class OnlineImpl:
    """OnlineBoundedGather2 driven by one of the scripts of specs/gather/GatherOnline.tla."""

    def __init__(self, utils, n, bound, script):
        self.utils = utils
        self.n, self.bound, self.script = n, bound, script
        self.loop = VLoop()
        self.created = []
        self.loop.set_task_factory(self._factory)
        self.sema = asyncio.Semaphore(bound)
        self.gate_of_task = {}
        self.gate = {}
        self.body_result = {}   # task object -> ok | fail | cancel (set when the body has ended)
        self.task_of = {}       # t -> task object (background tasks in call order)
        self.outcome = {t: "none" for t in range(1, n + 1)}
        self.main = None
        self.stask = None
        self.souter = None
        self.began = False
        self.pool = None
        self.result = None
        self.wcb = None

    def _factory(self, loop, coro, **kw):
        t = _tasks._PyTask(coro, loop=loop, **kw)
        self.created.append(t)
        nm = getattr(coro, "__name__", "")
        if nm == "run_and_cleanup":
            self.task_of[len(self.task_of) + 1] = t
        elif nm == "_shutdown":
            self.stask = t
        return t

    async def body(self, t):
        me = asyncio.current_task()
        g = self.loop.create_future()
        self.gate_of_task[me] = g
        self.gate[t] = g
        try:
            v = await g
        except asyncio.CancelledError:
            self.body_result[me] = "cancel"
            raise
        except BaseException:
            self.body_result[me] = "fail"
            raise
        self.body_result[me] = "ok"
        return v

    async def _main(self):
        self.began = True
        await self.sema.acquire()
        n, script = self.n, self.script
        try:
            async with self.utils.OnlineBoundedGather2(self.sema) as pool:
                self.pool = pool
                first = n - 1 if script == "waitcall" else n
                ts = [pool.call(self.body, t) for t in range(1, first + 1)]
                if script in ("wait", "waitcall", "waitraise"):
                    await pool.wait([ts[0]])
                if script == "waitcall":
                    pool.call(self.body, n)
                if script in ("raise", "waitraise"):
                    raise DriverError()
            self.result = ("returned", None)
        except BaseException as e:  # noqa: B036
            self.result = ("raised", e)

    # ---- actions
    def start(self):
        self.main = self.loop.create_task(self._main(), name="D")
        self._scan()

    def complete(self, t):
        self.outcome[t] = "ok"
        self.gate[t].set_result(("val", t))
        self._scan()

    def fail(self, t):
        self.outcome[t] = "fail"
        self.gate[t].set_exception(TaskError(t))
        self._scan()

    def fail_cancelled(self, t):
        """The future the body awaits is cancelled: the body raises CancelledError on its own."""
        self.outcome[t] = "cancel"
        self.gate[t].cancel()
        self._scan()

    def step(self):
        if not self.loop.step():
            raise RuntimeError("nothing to step")
        self._scan()

    def _scan(self):
        for t in self.task_of.values():
            if t in self.body_result and not t.done():
                w = getattr(t, "_fut_waiter", None)
                if w is not None:
                    self.souter = w
        cbs = [cb for t in self.task_of.values() for cb, _ctx in list(getattr(t, "_callbacks", []) or [])]
        cbs += [h._callback for h in _aio.ready_handles(self.loop)]
        for cb in cbs:
            if getattr(cb, "__name__", "") == "_on_completion":
                self.wcb = cb

    # ---- projection
    def _who(self, task):
        if task is self.main:
            return 0
        for t, x in self.task_of.items():
            if x is task:
                return t
        return None

    def _tpc(self, i):
        t = self.task_of.get(i)
        if t is None:
            return "idle"
        br = self.body_result.get(t)
        if t.done():
            return {"ok": "done", "fail": "failed"}.get(br, "cancelled")
        g = self.gate_of_task.get(t)
        if g is None:
            w = getattr(t, "_fut_waiter", None)
            if w is None:
                return "new"
            if w.cancelled():
                return "canc_acq"
            return "grant" if w.done() else "acq"
        if br is not None:
            w = getattr(t, "_fut_waiter", None)
            if w is None:
                return "?"
            return "shutwoken" if w.done() else "shut"
        if not g.done():
            return "run"
        if g.cancelled():
            return "canc_run"
        return "res_fail" if g.exception() is not None else "res_ok"

    def _sq(self):
        out = []
        for f in list(self.sema._waiters or ()):
            who = "?"
            for x in [self.main, *self.task_of.values()]:
                if x is not None and getattr(x, "_fut_waiter", None) is f and not x.done():
                    who = self._who(x)
            out.append((who, "c" if f.cancelled() else ("g" if f.done() else "p")))
        return tuple(out)

    def _rq(self):
        out = []
        for h in _aio.ready_handles(self.loop):
            t = _aio.handle_task(h)
            if t is not None:
                if t is self.stask:
                    out.append(("S", 0))
                else:
                    w = self._who(t)
                    out.append(("D", 0) if w == 0 else ("T", w if w is not None else "?"))
                continue
            nm = _aio.handle_fn_name(h)
            out.append({"_inner_done_callback": ("I", 0), "_outer_done_callback": ("O", 0), "_on_completion": ("W", 0)}.get(nm, ("?", nm)))
        return tuple(out)

    def _dpc(self):
        m = self.main
        if m is None:
            return "idle"
        if m.done():
            return "end"
        if not self.began:
            return "new"
        w = getattr(m, "_fut_waiter", None)
        if w is None:
            return "?"
        if any(w is f for f in (self.sema._waiters or ())):
            return "grant" if w.done() else "acq"
        if self.pool is not None and any(w is f for f in self.pool._done_event._waiters):
            return "evwoken" if w.done() else "evwait"
        return "wwoken" if w.done() else "wait"

    def _exc_id(self, e):
        if e is None:
            return 0
        if isinstance(e, TaskError):
            return e.t
        if isinstance(e, DriverError):
            return self.n + 1
        if isinstance(e, self.utils.PoolShutdownError):
            return self.n + 2
        return repr(e)

    def project(self):
        n = self.n
        pool = self.pool
        pend, shutd, ev, exc = (), False, True, 0
        if pool is not None:
            if pool._pending is None:
                shutd = True
            else:
                pend = tuple(k + 1 for k in pool._pending)
            ev = pool._done_event.is_set()
            exc = self._exc_id(pool._exception)
        hres, hexc = "none", 0
        if self.result is not None:
            hres = self.result[0]
            hexc = self._exc_id(self.result[1]) if hres == "raised" else 0
        cbs = {}
        for i in range(1, n + 1):
            t = self.task_of.get(i)
            cbs[i] = 0
            if t is not None and not t.done():
                cbs[i] = sum(1 for cb, _ctx in list(getattr(t, "_callbacks", []) or []) if getattr(cb, "__name__", "") == "_on_completion")
        so = "none"
        if self.souter is not None:
            so = "cancelled" if self.souter.cancelled() else ("done" if self.souter.done() else "pending")
        return {
            "script": self.script, "bound": self.bound, "value": self.sema._value, "sq": self._sq(),
            "tpc": {i: self._tpc(i) for i in range(1, n + 1)},
            "must": {i: bool(getattr(self.task_of.get(i), "_must_cancel", False)) for i in range(1, n + 1)},
            "cbs": cbs, "pend": pend, "shutd": shutd, "ev": ev, "exc": exc, "dpc": self._dpc(),
            "spc": "none" if self.stask is None else ("done" if self.stask.done() else "new"),
            "souter": so, "wcount": _aio.closure_vars(self.wcb).get("counter", 0) if self.wcb else 0,
            "rq": self._rq(), "hres": hres, "hexc": hexc, "outcome": dict(self.outcome),
        }

    def close(self):
        errs = [e for e in self.loop.errors if "exception was never retrieved" not in str(e.get("message", ""))]
        _aio.shutdown_loop(self.loop)
        if errs:
            raise RuntimeError(f"event loop errors: {errs}")


ONLINE_VIEW = ("script", "bound", "value", "sq", "tpc", "must", "cbs", "pend", "shutd", "ev", "exc", "dpc", "spc", "souter",
               "wcount", "rq", "hres", "hexc", "outcome")


def online_view(st):
    out = {}
    for k in ONLINE_VIEW:
        v = st[k]
        if k in ("tpc", "must", "outcome", "cbs"):
            v = _aio.fn(v)
        elif k == "sq":
            v = tuple((e["who"], e["st"]) for e in v)
        elif k == "rq":
            v = tuple(tuple(e) for e in v)
        elif k == "pend":
            v = tuple(v)
        out[k] = v
    return out


def online_post_json(p):
    n = len(p["tpc"])
    return {"value": p["value"], "sq": [[w, s] for (w, s) in p["sq"]], "tpc": [p["tpc"][i] for i in range(1, n + 1)],
            "must": [p["must"][i] for i in range(1, n + 1)], "cbs": [p["cbs"][i] for i in range(1, n + 1)],
            "pend": list(p["pend"]), "shutd": p["shutd"], "ev": p["ev"], "exc": p["exc"], "dpc": p["dpc"], "spc": p["spc"],
            "souter": p["souter"], "wcount": p["wcount"], "rq": [[a, b] for (a, b) in p["rq"]], "hres": p["hres"],
            "hexc": p["hexc"], "outcome": [p["outcome"][i] for i in range(1, n + 1)]}
