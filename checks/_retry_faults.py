"""Concretisation table for C21: error class -> several real exception objects.

The class of an exception is the subset of {limited, rate, transient} that the *documentation* of
hailtop.utils (status-code and errno tables, the comments of the three classifier functions) assigns to it;
{} is a permanent error.  Every branch of is_limited_retries_error / is_rate_limit_error / is_transient_error
has at least one representative.  `docker=True` entries need an importable aiodocker: the sandbox has none
(and the loader keeps it un-importable), so for those runs `hailtop.utils.utils.aiodocker` is pointed to the
small stand-in below (same attributes as aiodocker.exceptions.DockerError: status, message).
"""
from __future__ import annotations

import asyncio
import errno
import socket
import types

L, R, T = "limited", "rate", "transient"


class _DockerError(Exception):
    def __init__(self, status, data, *args):
        super().__init__(status, data, *args)
        self.status = status
        self.message = data["message"]

    def __repr__(self):
        return f"DockerError({self.status}, {self.message!r})"

    def __str__(self):
        return f"DockerError({self.status}, {self.message!r})"


fake_aiodocker = types.ModuleType("aiodocker")
fake_aiodocker.exceptions = types.ModuleType("aiodocker.exceptions")
fake_aiodocker.exceptions.DockerError = _DockerError
fake_aiodocker.DockerError = _DockerError


class TransportError(Exception):
    """Shape of google.auth.exceptions.TransportError: a plain Exception that wraps the cause."""


def build():
    """-> list of dict(name, cls (frozenset), make() -> exception, docker (bool)).  Call after loader.install()."""
    import aiohttp
    import botocore.exceptions
    import requests.exceptions
    import urllib3.exceptions
    from aiohttp.client_reqrep import ConnectionKey
    from multidict import CIMultiDict, CIMultiDictProxy
    from yarl import URL

    import hailtop.aiocloud.aiogoogle.client.compute_client as cc
    import hailtop.httpx as hx
    from hailtop.utils.utils import TransientError

    url = URL("https://storage.googleapis.invalid/b/o")
    ri = aiohttp.RequestInfo(url, "GET", CIMultiDictProxy(CIMultiDict()), url)
    key = ConnectionKey("batch.hail.invalid", 443, True, None, None, None, None)

    def aio(status):
        return lambda: aiohttp.ClientResponseError(ri, (), status=status, message=f"status {status}")

    def hxe(status, body=""):
        return lambda: hx.ClientResponseError(ri, (), body=body, status=status, message=f"status {status}")

    def chained(outer, inner):
        def mk():
            e = outer()
            e.__cause__ = inner()
            return e
        return mk

    def in_handler(outer, inner, from_none=False):
        """outer() raised while inner() is being handled: inner becomes the *implicit* __context__ (not __cause__);
        with `from None` the context is kept but suppressed.  hailtop.utils follows explicit causes only."""
        def mk():
            try:
                try:
                    raise inner()
                except BaseException:  # noqa
                    if from_none:
                        raise outer() from None
                    raise outer()
            except BaseException as e:  # noqa
                assert e.__context__ is not None
                return e
        return mk

    def docker(status, msg):
        return lambda: _DockerError(status, {"message": msg})

    out = []

    def add(name, cls, make, docker=False):
        out.append({"name": name, "cls": frozenset(cls), "make": make, "docker": docker})

    # ---------------------------------------------------------------- permanent
    add("ValueError", (), lambda: ValueError("bad input"))
    add("KeyError", (), lambda: KeyError("k"))
    add("AssertionError", (), lambda: AssertionError())
    for s in (400, 401, 403, 404, 409, 412, 501):
        add(f"aiohttp-{s}", (), aio(s))
    add("httpx-400-other-body", (), hxe(400, "Invalid argument."))
    add("httpx-403-forbidden", (), hxe(403, "does not have storage.objects.get access"))
    add("httpx-404", (), hxe(404, "No such object"))
    add("httpx-401-limited-body", (), hxe(401, "Invalid grant: account not found"))
    add("FileNotFoundError", (), lambda: FileNotFoundError(errno.ENOENT, "No such file"))
    add("PermissionError", (), lambda: PermissionError(errno.EACCES, "denied"))
    add("ConnectionAbortedError", (), lambda: ConnectionAbortedError(errno.ECONNABORTED, "aborted"))
    add("OSError-noerrno", (), lambda: OSError("something"))
    add("gcp-operation-other", (), lambda: cc.GCPOperationError(400, "m", ["ZONE_RESOURCE_POOL_EXHAUSTED"], ["m"], {}))
    add("gcp-operation-nocodes", (), lambda: cc.GCPOperationError(400, "m", None, None, {}))
    add("payload-other", (), lambda: aiohttp.ClientPayloadError("Can not decode content-encoding: gzip"))
    add("client-oserror-other-ssl", (), lambda: aiohttp.ClientOSError(1, "[SSL: CERTIFICATE_VERIFY_FAILED]"))
    add("client-oserror-no-strerror", (), lambda: aiohttp.ClientOSError())
    add("gaierror-fail", (), lambda: socket.gaierror(socket.EAI_FAIL, "Non-recoverable failure in name resolution"))
    add("connector-enoent", (), lambda: aiohttp.ClientConnectorError(key, OSError(errno.ENOENT, "nf")))
    add("client-connection-error", (), lambda: aiohttp.ClientConnectionError("generic"))
    add("urllib3-protocol", (), lambda: urllib3.exceptions.ProtocolError("p"))
    add("botocore-client-error", (), lambda: botocore.exceptions.ClientError({"Error": {"Code": "404"}}, "GetObject"))
    add("requests-http-error", (), lambda: requests.exceptions.HTTPError("404"))
    add("requests-timeout-base", (), lambda: requests.exceptions.Timeout("t"))
    add("chained-permanent", (), chained(lambda: RuntimeError("wrap"), lambda: ValueError("inner")))
    add("chained2-permanent", (), chained(lambda: RuntimeError("wrap"), chained(lambda: KeyError("k"), aio(404))))
    # a permanent error raised while a transient / limited / rate-limit one is being handled is still a permanent error:
    # the handled exception is only its implicit __context__
    add("permanent-in-transient-handler", (), in_handler(lambda: ValueError("cleanup failed"), lambda: TransientError("try again")))
    add("permanent-in-http503-handler", (), in_handler(aio(404), aio(503)))
    add("permanent-in-oserror-handler", (), in_handler(lambda: KeyError("k"), lambda: OSError(errno.ETIMEDOUT, "timed out")))
    add("permanent-from-None-in-transient-handler", (), in_handler(lambda: ValueError("translated"), lambda: TransientError("try again"), True))
    add("permanent-from-None-in-429-handler", (), in_handler(hxe(400, "Invalid argument."), hxe(429, "slow down"), True))
    add("permanent-in-limited-handler", (), in_handler(lambda: RuntimeError("wrap"), lambda: ConnectionResetError("Cannot write to closing transport")))
    add("permanent-from-None-in-limited-handler", (), in_handler(lambda: RuntimeError("wrap"), lambda: ConnectionRefusedError("refused"), True))
    add("permanent-cause-with-transient-context", (), in_handler(chained(lambda: RuntimeError("wrap"), lambda: ValueError("explicit cause")),
                                                                  lambda: TransientError("handled")))
    add("docker-500-invalid-repo", (), docker(500, "Invalid repository name (x), only [a-z0-9-_.] are allowed"), True)
    add("docker-500-artifactregistry", (), docker(500, "Permission 'artifactregistry.repositories.downloadArtifacts' denied on resource 'p'"), True)
    add("docker-500-permissions", (), docker(500, "denied: retrieving permissions failed"), True)
    add("docker-500-unknown", (), docker(500, "unknown: Tag v1.11.2 was deleted or has expired. To pull, revive via time machine"), True)
    add("docker-404-other", (), docker(404, "pull access denied for x, repository does not exist"), True)
    add("docker-400", (), docker(400, "bad parameter"), True)
    # ---------------------------------------------------------------- transient only
    for s in (408, 500, 502, 503, 504):
        add(f"aiohttp-{s}", (T,), aio(s))
        add(f"httpx-{s}", (T,), hxe(s, "backend error"))
    add("gcp-quota", (T,), lambda: cc.GCPOperationError(403, "m", ["X", "QUOTA_EXCEEDED"], ["m"], {}))
    add("server-timeout", (T,), lambda: aiohttp.ServerTimeoutError("timeout"))
    add("server-disconnected", (T,), lambda: aiohttp.ServerDisconnectedError())
    add("asyncio-timeout", (T,), lambda: asyncio.TimeoutError())
    add("connector-via-os_error", (T,), lambda: aiohttp.ClientConnectorError(key, asyncio.TimeoutError()))
    add("connector-ehostunreach", (T,), lambda: aiohttp.ClientConnectorError(key, OSError(errno.EHOSTUNREACH, "Connect call failed")))
    add("payload-incomplete", (T,), lambda: aiohttp.ClientPayloadError("Response payload is not completed"))
    add("sslv3-bad-record-mac", (T,), lambda: aiohttp.ClientOSError(1, "[SSL: SSLV3_ALERT_BAD_RECORD_MAC] sslv3 alert bad record mac (_ssl.c:2548)"))
    for name in ("EADDRNOTAVAIL", "ETIMEDOUT", "EHOSTUNREACH", "ENETUNREACH", "EPIPE"):
        add(f"OSError-{name}", (T,), (lambda n: lambda: OSError(getattr(errno, n), n))(name))
    add("aiohttp-ClientOSError-EPIPE", (T,), lambda: aiohttp.ClientOSError(errno.EPIPE, "Broken pipe"))
    add("urllib3-read-timeout", (T,), lambda: urllib3.exceptions.ReadTimeoutError("pool", "url", "Read timed out."))
    add("requests-read-timeout", (T,), lambda: requests.exceptions.ReadTimeout("read timeout"))
    add("requests-connection-error", (T,), lambda: requests.exceptions.ConnectionError("Connection aborted."))
    add("requests-connect-timeout", (T,), lambda: requests.exceptions.ConnectTimeout("connect timeout"))
    add("socket-timeout", (T,), lambda: socket.timeout("The read operation timed out"))
    add("gaierror-again", (T,), lambda: socket.gaierror(socket.EAI_AGAIN, "Temporary failure in name resolution"))
    add("gaierror-noname", (T,), lambda: socket.gaierror(socket.EAI_NONAME, "nodename nor servname provided, or not known"))
    add("botocore-connection-closed", (T,), lambda: botocore.exceptions.ConnectionClosedError("closed"))
    add("TransientError", (T,), lambda: TransientError("try again"))
    add("chained-transient", (T,), chained(lambda: RuntimeError("wrap"), lambda: TransientError("inner")))
    add("chained2-transient", (T,), chained(lambda: RuntimeError("wrap"), chained(lambda: ValueError("mid"), aio(503))))
    add("chained-permanent-outer-http", (T,), chained(aio(404), lambda: OSError(errno.ETIMEDOUT, "timed out")))
    # a transient error keeps its class whatever was being handled when it was raised
    add("transient-in-permanent-handler", (T,), in_handler(lambda: TransientError("again"), lambda: ValueError("bad")))
    add("http503-from-None-in-permanent-handler", (T,), in_handler(aio(503), lambda: KeyError("k"), True))
    add("transient-cause-with-permanent-context", (T,), in_handler(chained(lambda: RuntimeError("wrap"), lambda: TransientError("explicit cause")),
                                                                 lambda: ValueError("handled")))
    add("docker-503", (T,), docker(503, "service unavailable"), True)
    add("docker-500-other", (T,), docker(500, "Get https://gcr.io/v2/: net/http: request canceled"), True)
    add("docker-429", (T,), docker(429, "toomanyrequests"), True)
    # ---------------------------------------------------------------- rate limit (always also transient in this code)
    add("aiohttp-429", (R, T), aio(429))
    add("httpx-429", (R, T), hxe(429, "slow down"))
    add("httpx-403-rateLimitExceeded", (R, T), hxe(403, '{"error": {"errors": [{"reason": "rateLimitExceeded"}]}}'))
    # ---------------------------------------------------------------- limited only
    add("httpx-400-user-project", (L,), hxe(400, "User project specified in the request is invalid."))
    add("httpx-400-invalid-grant", (L,), hxe(400, '{"error": "invalid_grant", "error_description": "Invalid grant: account not found"}'))
    add("reset-no-errno", (L,), lambda: ConnectionResetError("Cannot write to closing transport"))
    add("refused-no-errno", (L,), lambda: ConnectionRefusedError("refused"))
    add("chained-limited", (L,), chained(lambda: RuntimeError("wrap"), lambda: ConnectionResetError("Cannot write to closing transport")))
    add("chained-limited-http", (L,), chained(aio(404), lambda: ConnectionRefusedError("refused")))
    add("limited-in-transient-handler", (L,), in_handler(lambda: ConnectionResetError("Cannot write to closing transport"), lambda: TransientError("handled")))
    add("docker-404-azurecr-manifest", (L,), docker(404, "manifest for x.azurecr.io/img:tag not found: manifest unknown: manifest tagged by \"tag\" is not found"), True)
    # ---------------------------------------------------------------- limited and transient
    add("reset-104", (L, T), lambda: ConnectionResetError(errno.ECONNRESET, "Connection reset by peer"))
    add("refused-111", (L, T), lambda: ConnectionRefusedError(errno.ECONNREFUSED, "Connection refused"))
    add("requests-aborted-from-reset", (L, T), chained(lambda: requests.exceptions.ConnectionError("Connection aborted."),
                                                      lambda: ConnectionResetError(errno.ECONNRESET, "Connection reset by peer")))
    add("google-transport-from-reset", (L, T), chained(lambda: TransportError("Connection aborted."),
                                                     lambda: ConnectionResetError(errno.ECONNRESET, "Connection reset by peer")))
    add("transient-from-limited", (L, T), chained(lambda: TransientError("wrap"), lambda: ConnectionRefusedError("refused")))
    # ---------------------------------------------------------------- limited, rate and transient (chained only)
    add("aiohttp-429-from-reset", (L, R, T), chained(aio(429), lambda: ConnectionResetError("Cannot write to closing transport")))
    # ---------------------------------------------------------------- not `Exception`s
    add("CancelledError", ("cancel",), lambda: asyncio.CancelledError())
    add("KeyboardInterrupt", ("keyboard",), lambda: KeyboardInterrupt())
    add("SystemExit", ("keyboard",), lambda: SystemExit(3))
    return out
