"""C21 - the retry helpers of hailtop.utils retry exactly the transient failures, with the documented back-off.

Spec specs/retry/Retry.tla (+ Backoff.tla).  (1) TLC checks the clauses of C21 exhaustively on the spec
(invariants and action properties; termination under fairness) and dumps the labelled state graph.
(2) Fault plans are behaviours of the spec: every fault sequence of the graph up to a length (exhaustive over
error classes), walks covering every edge of the graph, and seeded random walks to the full length.  Each
class is concretised by several real exception objects (checks/_retry_faults.py); the real helpers run under
the virtual event loop with the jitter forced to its extremes / seeded interior values, and every call of f,
every sleep (virtual milliseconds) and the final outcome is recorded.  (3) TLC validates every recorded
execution against the spec (RetryTrace.tla).  (4) The delay functions are judged separately over
(tries, base, max) (BackoffCheck.tla, call/return).
"""
from __future__ import annotations

import json
import logging
import os
import random
import time

from vlib import loader, tlc, walk
from vlib.vloop import VLoop

from . import _retry_faults as RF

LEVEL = "fault_enumeration"
MANIFEST = {
    "technique": "TLA+ spec Retry (retry loop as a state machine over error classes, history counter of limited-only retries, "
                 "delay band from Backoff) checked by TLC; fault plans = behaviours of the spec taken from TLC's state graph; the real "
                 "retry_transient_errors* run under a virtual-time event loop with real exception objects; every recorded execution "
                 "is validated by TLC against the spec (trace validation), the delay functions by a TLC call/return verdict",
    "text": "All sequences of error classes (subsets of {limited, rate, transient}, permanent, CancelledError, KeyboardInterrupt/SystemExit) "
            "up to a stated length, every edge of the spec's state graph up to 8-12 failures, and random longer walks, each class "
            "concretised by many real exceptions (every branch of the three classifier functions); decisions, number of invocations, "
            "slept virtual time and the propagated object are checked by TLC at every step.",
    "note": "Trusts TLC, the virtual loop, and the class table in checks/_retry_faults.py (manual transcription of the documented "
            "status-code/errno tables). Classes {rate} and {limited, rate} have no inhabitant in this code (every rate-limit error is "
            "also transient) and are explored on the spec only. aiodocker is absent: DockerError branches run against a stand-in class.",
    "design_ref": "DESIGN.md section 5, C21",
}

INVS = ["TypeOK", "C21_Rerun", "C21_LimitedAtMostFive", "C21_DelayBounds"]
PROPS = ["C21_TransientRetried", "C21_LimitedRetriedEarly", "C21_LimitedGivenUp", "C21_OthersRaiseAtOnce",
         "C21_WaitBetweenTries", "C21_ReturnOnlyOnSuccess"]
FLAGS = ("limited", "rate", "transient")


def consts(maxfail, policy, delays):
    return {"MaxFail": maxfail, "BaseMs": 1000, "MaxMs": 60000, "Log2Max": 30, "LimitedRetries": 5,
            "Policy": f'"{policy}"', "Delays": f'"{delays}"'}


# ------------------------------------------------------------------------------------------------------------
class Harness:
    """Runs one fault plan on the real helper and records the behaviour."""

    def __init__(self, U, table, seed):
        self.U = U
        self.table = table
        self.by_cls = {}
        for r in table:
            self.by_cls.setdefault(r["cls"], []).append(r)
        self.rng = random.Random(seed)
        self.used = {}
        self.sentinel = object()

    def realisable(self, cls, docker):
        return any(docker or not r["docker"] for r in self.by_cls.get(cls, ()))

    def pick(self, cls, k, docker):
        reps = [r for r in self.by_cls[cls] if docker or not r["docker"]]
        return reps[k % len(reps)]

    def run(self, faults, end, *, variant=0, jitter=("lo",), docker=False, entry=0, reps=None):
        """faults: tuple of classes (frozensets); end: 'succeed' | 'cancel' (cancel the helper in the sleep after the
        last fault); reps: optional explicit representatives.  -> dict(ev=[...], meta)"""
        U = self.U
        loop = VLoop()
        ev = []
        st = {"n": 0, "last": None, "idx": 0, "sleeps": 0}
        names = []

        def event(a, **kw):
            e = {"a": a, "n": st["n"]}
            e.update(kw)
            ev.append(e)

        async def f(x, *, y):
            assert (x, y) == (17, "kw")
            st["n"] += 1
            event("Call")
            i = st["idx"]
            if i < len(faults):
                st["idx"] += 1
                rep = reps[i] if reps else self.pick(faults[i], variant + 7 * i, docker)
                names.append(rep["name"])
                self.used[rep["name"]] = self.used.get(rep["name"], 0) + 1
                exc = rep["make"]()
                obs = [fl for fl, fn in zip(FLAGS, (U.is_limited_retries_error, U.is_rate_limit_error, U.is_transient_error)) if fn(exc)]
                st["last"] = exc
                event("Fail", c=sorted(faults[i]), obs=obs)
                raise exc
            event("Succeed")
            return self.sentinel

        if entry == 0:
            coro = U.retry_transient_errors(f, 17, y="kw")
        elif entry == 1:
            coro = U.retry_transient_errors_with_debug_string("debug string", 0, f, 17, y="kw")
        elif entry == 2:
            coro = U.retry_transient_errors_with_delayed_warnings(5000, f, 17, y="kw")
        else:
            coro = U.retry_transient_errors_with_debug_string("debug string", 10 ** 9, f, 17, y="kw")
        outcome = {}

        async def outer():
            try:
                outcome["ret"] = await coro
            except BaseException as e:  # noqa: the outcome is the datum
                outcome["exc"] = e

        def randrange(n, *a):
            assert not a
            mode = jitter[st["sleeps"] % len(jitter)]
            return 0 if mode == "lo" else n - 1 if mode == "hi" else self.rng.randrange(n)

        saved = (random.randrange, U.time_msecs, U.aiodocker)
        random.randrange = randrange
        U.time_msecs = lambda: int(loop.time() * 1000)
        U.aiodocker = RF.fake_aiodocker if docker else None
        try:
            task = loop.create_task(outer())
            cancelled = False
            guard = 0
            while not task.done():
                guard += 1
                if guard > 100000:
                    raise RuntimeError("retry harness: step budget exhausted")
                if loop.step():
                    continue
                t = loop.next_timer()
                if t is None:
                    raise RuntimeError("retry harness: helper is blocked without a timer")
                dms = (t - loop.time()) * 1000.0
                d = int(round(dms))
                st["sleeps"] += 1
                event("Sleep", d=d, whole=abs(dms - d) <= 1e-6)
                if end == "cancel" and st["idx"] == len(faults) and not cancelled:
                    cancelled = True
                    task.cancel()
                    event("CancelSleep")
                    continue
                loop.advance()
            if task.cancelled():
                # the cancellation went through outer's `await`: the helper propagated CancelledError
                import asyncio
                outcome["exc"] = asyncio.CancelledError()
                outcome["outer_cancelled"] = True
        finally:
            random.randrange, U.time_msecs, U.aiodocker = saved
        if loop.errors:
            raise RuntimeError(f"event loop errors: {loop.errors}")
        loop.dispose()
        if "ret" in outcome:
            event("Return", same=outcome["ret"] is self.sentinel)
        else:
            exc = outcome["exc"]
            if cancelled:
                import asyncio
                same = isinstance(exc, asyncio.CancelledError)
            else:
                same = exc is st["last"]
            event("Raise", same=bool(same))
        return {"ev": ev, "names": names, "faults": [sorted(c) for c in faults], "end": end, "jitter": list(jitter),
                "docker": docker, "entry": entry, "raised": None if "ret" in outcome else type(outcome["exc"]).__name__}


# ------------------------------------------------------------------------------------------------------------
class G:
    """TLC's state graph with label-indexed out-edges."""

    def __init__(self, graph):
        self.g = graph
        self.out = {}
        for s, lab, d in graph.edges:
            name, args = tlc.parse_action_label(lab)
            self.out.setdefault(s, {})[(name, args)] = d
        assert len(graph.init) == 1
        self.root = graph.init[0]

    def succ(self, node, name, *args):
        return self.out.get(node, {}).get((name, tuple(args)))

    def sleeps(self, node):
        return sorted((a[0], d) for (n, a), d in self.out.get(node, {}).items() if n == "Sleep")

    def fails(self, node):
        return sorted(((a[0], d) for (n, a), d in self.out.get(node, {}).items() if n == "Fail"), key=lambda x: (sorted(x[0]), x[1]))


def enumerate_plans(G_, maxlen, realisable):
    """All fault plans of the graph with at most maxlen failures: (faults, end)."""
    plans = []

    def rec(node, faults):
        # node: pc = "calling"
        plans.append((faults, "succeed"))
        if len(faults) >= maxlen:
            return
        for c, failed in G_.fails(node):
            if not realisable(c):
                continue
            sl = G_.sleeps(failed)
            if not sl:
                plans.append((faults + (c,), "succeed"))  # the plan's success is never reached: the fault is final
                continue
            if G_.succ(failed, "Raise") is not None:
                pass  # grey zone: the same plan serves both continuations
            sleeping = sl[0][1]
            plans.append((faults + (c,), "cancel"))
            rec(G_.succ(sleeping, "Call"), faults + (c,))

    rec(G_.succ(G_.root, "Call"), ())
    # (faults, 'succeed') is produced both as "leaf" and as prefix with success; dedupe keeps order
    seen = set()
    out = []
    for p in plans:
        if p not in seen:
            seen.add(p)
            out.append(p)
    return out


def walk_to_plan(w):
    faults, jit, end = [], [], "succeed"
    for (_s, lab, _d) in w:
        name, args = tlc.parse_action_label(lab)
        if name == "Fail":
            faults.append(args[0])
        elif name == "Sleep":
            jit.append(args[0])
        elif name == "CancelSleep":
            end = "cancel"
    return tuple(faults), end, jit


def follow(G_, ev, covered):
    """Follow a recorded trace through TLC's graph; -> True if every event is an edge."""
    node = G_.root
    for e in ev:
        a = e["a"]
        if a == "Fail":
            nxt = G_.succ(node, "Fail", frozenset(e["c"]))
            key = ("Fail", frozenset(e["c"]))
        elif a == "Sleep":
            sl = G_.sleeps(node)
            if not sl or not (sl[0][0] <= e["d"] <= sl[-1][0]):
                return False
            d, nxt = min(sl, key=lambda x: abs(x[0] - e["d"]))
            key = ("Sleep", d)
        else:
            nxt = G_.succ(node, a)
            key = (a,)
        if nxt is None:
            return False
        covered.add((node, key, nxt))
        node = nxt
    return True


def run(ctx):
    loader.install()
    import hailtop.utils as HU
    import hailtop.utils.utils as U

    assert HU.retry_transient_errors is U.retry_transient_errors
    logging.getLogger("hailtop.utils").setLevel(logging.CRITICAL + 1)
    if os.environ.get("HAIL_DONT_RETRY_500") == "1":
        raise RuntimeError("HAIL_DONT_RETRY_500 is set in the environment; the class table assumes it is not")
    table = RF.build()
    H = Harness(U, table, ctx.seed)
    t0 = time.time()
    phases = {}
    wd = tlc.prepare_dir(ctx.build / "tlc", ["retry"])

    # ---- (1) the spec satisfies C21, exhaustively, under both readings of the limited-retry counter -----------
    maxfail = 8 if ctx.quick else 12
    env = {"BK_INPUTS": wd / "bk_inputs.ndjson", "BK_CASES": wd / "bk_cases.ndjson", "BK_VERDICT": wd / "bk_verdict.json"}
    acts = ["Call", "Succeed", "Fail", "Sleep", "Raise", "Return", "CancelSleep"]
    # Policy=statement is the reading the verdict uses; it also checks termination (liveness under weak fairness; failures
    # are finitely many).  Policy=code (the exact model of utils.py, a refinement) is re-checked in the thorough tier.
    for policy in ("statement",) if ctx.quick else ("statement", "code"):
        live = policy == "statement"
        (wd / f"MC_{policy}.cfg").write_text(tlc.mk_cfg(spec="FairSpec" if live else None, constants=consts(maxfail, policy, "extremes"),
                                                         invariants=INVS, properties=PROPS + (["C21_Terminates"] if live else [])))
        res = tlc.run(wd, "RetryMC", f"MC_{policy}.cfg", workers=4, coverage=True, dump=f"g_{policy}", env=env)
        ctx.add_tlc(res, f"exhaustive Retry, up to {maxfail} failures, all 10 classes, delays at both ends of the band, Policy={policy}"
                         + (", with liveness C21_Terminates under weak fairness" if live else ""))
        ctx.require_covered(res, acts, "Retry")
        for v in res.violations:
            ctx.violation(f"spec:{v.name}", {"policy": policy, "trace": [(h, s) for h, s in v.trace]})
    if ctx.viol:
        return
    graph = tlc.parse_dot(wd / "g_statement.dot")
    G_ = G(graph)
    phases["model_checking"] = round(time.time() - t0, 1)

    # ---- (2) fault plans from the graph, run on the real helpers -----------------------------------------------
    def realisable(c):
        return H.realisable(c, True)

    all_classes = sorted({a[0] for o in G_.out.values() for (n, a) in o if n == "Fail"}, key=sorted)
    unreal = [sorted(c) for c in all_classes if not realisable(c)]
    full = 4 if ctx.quick else 6
    nvar = 1 if ctx.quick else 2
    runs = []
    jit_cycles = [("lo",), ("hi",), ("mid",), ("lo", "hi", "mid"), ("hi", "mid", "lo")]
    k = 0
    plans = enumerate_plans(G_, full, realisable)
    n_exh = len(plans)
    for (faults, end) in plans:
        for v in range(nvar):
            k += 1
            docker = (k % 2 == 0)
            if not all(H.realisable(c, docker) for c in faults):
                docker = True
            runs.append(H.run(faults, end, variant=ctx.seed + k, jitter=jit_cycles[k % len(jit_cycles)], docker=docker, entry=k % 4))
    # walks that cover every edge of the (realisable part of the) graph
    grey = {n for n, o in G_.out.items() if ("Raise", ()) in o and any(nm == "Sleep" for (nm, _a) in o)}
    real_edges = [(s, lab, d) for (s, lab, d) in graph.edges
                  if not (lab.startswith("Fail(") and not realisable(tlc.parse_action_label(lab)[1][0]))]
    # first the part of the graph that needs no grey-zone retry (what utils.py can do), then all of it
    cw = walk.cover_walks(tlc.Graph(graph.nodes, [e for e in real_edges if not (e[0] in grey and e[1].startswith("Sleep("))], graph.init),
                          rng=random.Random(ctx.seed))
    cw += walk.cover_walks(tlc.Graph(graph.nodes, real_edges, graph.init), rng=random.Random(ctx.seed + 1))
    for w in cw:
        faults, end, jit = walk_to_plan(w)
        # jitter as the walk's Sleep edges say: the lower or the upper end of the band
        modes = []
        node = G_.root
        for (s, lab, d) in w:
            name, args = tlc.parse_action_label(lab)
            if name == "Sleep":
                sl = G_.sleeps(s)
                modes.append("lo" if args[0] == sl[0][0] else "hi")
        k += 1
        runs.append(H.run(faults, end, variant=ctx.seed + k, jitter=tuple(modes) or ("lo",), docker=True, entry=k % 4))
    n_cover = len(cw)
    # every representative alone, and after 0 / 5 transient failures (limited-only ones are then beyond `tries <= 5`)
    tr = frozenset({"transient"})
    n_rep = 0
    for r in table:
        for pre in (0, 5):
            k += 1
            n_rep += 1
            faults = (tr,) * pre + (r["cls"],)
            reps = [H.pick(tr, k + i, r["docker"]) for i in range(pre)] + [r]
            runs.append(H.run(faults, "succeed", jitter=jit_cycles[k % len(jit_cycles)], docker=r["docker"], entry=k % 4, reps=reps))
    # seeded random walks through the graph to the full length
    rng = random.Random(ctx.seed * 1000003 + 21)
    n_rand = 300 if ctx.quick else 6000
    for _ in range(n_rand):
        node = G_.succ(G_.root, "Call")
        faults, end = [], "succeed"
        while True:
            fl = [(c, d) for c, d in G_.fails(node) if realisable(c)]
            if not fl or rng.random() < 0.08:
                break
            retr = [(c, d) for c, d in fl if G_.sleeps(d)]
            c, failed = rng.choice(retr) if retr and rng.random() < 0.9 else rng.choice(fl)
            faults.append(c)
            sl = G_.sleeps(failed)
            if not sl:
                break
            if rng.random() < 0.04:
                end = "cancel"
                break
            node = G_.succ(sl[0][1], "Call")
        k += 1
        runs.append(H.run(tuple(faults), end, variant=rng.randrange(10 ** 6), jitter=tuple(rng.choice(("lo", "hi", "mid")) for _ in range(5)),
                          docker=True, entry=k % 4))

    phases["executions"] = round(time.time() - t0, 1)
    # ---- coverage of TLC's graph by the recorded executions -----------------------------------------------------
    covered = set()
    off_graph = 0
    for r in runs:
        if not follow(G_, r["ev"], covered):
            off_graph += 1
    # edges the implementation can be expected to take: those reachable without a grey-zone retry
    must = set()
    seen = {G_.root}
    stack = [G_.root]
    while stack:
        u = stack.pop()
        for (nm, a), d in G_.out.get(u, {}).items():
            if nm == "Fail" and not realisable(a[0]):
                continue
            if u in grey and nm == "Sleep":
                continue
            key = (nm,) + tuple(a)
            must.add((u, key, d))
            if d not in seen:
                seen.add(d)
                stack.append(d)
    missing = must - covered
    grey_retries = sum(1 for (u, key, d) in covered if u in grey and key[0] == "Sleep")
    grey_raises = sum(1 for (u, key, d) in covered if u in grey and key[0] == "Raise")

    # ---- (4) the delay functions over (tries, base, max): call/return verdict by TLC -----------------------------------------
    inputs = [json.loads(x) for x in env["BK_INPUTS"].read_text().splitlines() if x.strip()]
    cases = []
    drng = random.Random(ctx.seed + 5)
    saved = random.randrange
    nmid = 3 if ctx.quick else 12
    try:
        for inp in inputs:
            t, b, m = inp["tries"], inp["base"], inp["max"]
            for mode in ["lo", "hi"] + ["mid"] * nmid:
                random.randrange = (lambda n: 0) if mode == "lo" else (lambda n: n - 1) if mode == "hi" else (lambda n: drng.randrange(n))
                d = U.delay_ms_for_try(t, b, m)
                cases.append({"tries": t, "base": b, "max": m, "d": d, "fn": "delay_ms_for_try", "mode": mode})
                if mode != "mid" or len(cases) % 5 == 0:
                    loop = VLoop()
                    loop.run_coro(U.sleep_before_try(t, b, m))
                    ms = loop.time() * 1000.0
                    if abs(ms - round(ms)) > 1e-6 * max(1.0, ms):
                        raise RuntimeError(f"sleep_before_try slept {ms} ms")
                    cases.append({"tries": t, "base": b, "max": m, "d": int(round(ms)), "fn": "sleep_before_try", "mode": mode})
                    loop.dispose()
        # defaults
        for t in range(0, 40):
            random.randrange = lambda n: drng.randrange(n)
            cases.append({"tries": t, "base": 1000, "max": 60000, "d": U.delay_ms_for_try(t), "fn": "delay_ms_for_try()", "mode": "mid"})
    finally:
        random.randrange = saved
    env["BK_CASES"].write_text("".join(json.dumps({k: c[k] for k in ("tries", "base", "max", "d")}) + "\n" for c in cases))

    # ---- (3) TLC validates every recorded execution ------------------------------------------------------------------
    tf = wd / "traces.ndjson"
    uniq = {}
    for i, r in enumerate(runs):
        uniq.setdefault(json.dumps({"ev": r["ev"]}, separators=(",", ":")), i)  # identical recorded executions are validated once
    lines = list(uniq)
    first_run = [uniq[x] for x in lines]
    tf.write_text("".join(x + "\n" for x in lines))
    nev = sum(len(runs[i]["ev"]) for i in first_run)
    verdicts = {}
    for policy in ("statement",):
        (wd / f"Trace_{policy}.cfg").write_text(tlc.mk_cfg(spec="TraceSpec", constants=consts(1000, policy, "any"),
                                                            invariants=INVS + ["TraceComplete"], deadlock=True))
        tres = tlc.run(wd, "RetryTrace", f"Trace_{policy}.cfg", workers=min(ctx.workers, 8), env={"TRACE_FILE": tf, **env}, cont=True)
        ctx.add_tlc(tres, f"trace validation of {len(runs)} executions of the real helpers ({len(lines)} distinct, {nev} events), Policy={policy}")
        if not tres.violations and tres.distinct < nev:
            raise RuntimeError(f"trace validation explored {tres.distinct} states for {nev} events")
        verdicts[policy] = tres
    bad_tids = set()
    for v in verdicts["statement"].violations:
        last = v.trace[-1][1] if v.trace else {}
        tid, l = last.get("tid"), last.get("l")
        if not tid or tid in bad_tids:
            continue
        bad_tids.add(tid)
        r = runs[first_run[tid - 1]]
        e = r["ev"][l - 1] if l and l <= len(r["ev"]) else None
        prev = r["ev"][l - 2] if l and l >= 2 else None
        cls = "+".join(last.get("cur") and sorted(last["cur"]) or []) or "permanent"
        if v.kind == "deadlock":
            what = e["a"] if e else "end"
            if e and e["a"] == "Fail" and sorted(e["obs"]) != sorted(e["c"]) and not set(e["c"]) & {"cancel", "keyboard"}:
                nfail = sum(1 for x in r["ev"][:l] if x["a"] == "Fail")
                sig = f"classify:{r['names'][nfail - 1] if 0 < nfail <= len(r['names']) else '?'}"
            elif e and e["a"] == "Sleep" and prev and prev["a"] == "Fail":
                sig = f"decision:{cls}:retried" if _band_ok(last.get("tries", 0), e["d"]) else f"delay:tries={last.get('tries')}"
                if _band_ok(last.get("tries", 0), e["d"]) and last.get("cur") == frozenset({"limited"}):
                    sig = "decision:limited:retried-beyond-five"
            elif e and e["a"] == "Raise" and not e["same"]:
                sig = "outcome:other-exception-raised"
            elif e and e["a"] == "Return" and not e["same"]:
                sig = "outcome:other-value-returned"
            elif e and e["a"] == "Raise":
                sig = f"decision:{cls}:raised"
            else:
                sig = f"trace:{what}:after-{prev['a'] if prev else 'init'}"
        else:
            sig = f"trace:{v.kind}:{v.name}"
        ctx.violation(sig, {"trace_id": tid, "position": l, "unexplained_event": e, "spec_state": walk.tlc.tlaval.to_py(last),
                            "faults": r["faults"], "exceptions": r["names"], "end": r["end"], "jitter": r["jitter"], "docker": r["docker"],
                            "entry": r["entry"], "events": r["ev"][:l]})
    if not verdicts["statement"].violations:
        off_code = grey_retries  # Policy=code is Policy=statement without the grey-zone Sleep edges
        if off_code:
            ctx.note("the executions satisfy C21 but not the exact model of utils.py (Policy=code): the limited-retry grey zone "
                     f"(tries > 5, fewer than five limited retries) was resolved by retrying in {grey_retries} step(s)")
        if off_graph:
            raise RuntimeError(f"{off_graph} executions accepted by TLC do not follow TLC's state graph")
        if missing and not off_code:
            raise RuntimeError(f"{len(missing)} edges of the graph were not exercised, e.g. {sorted(missing, key=str)[:3]}")

    # ---- the verdict on the delay-function cases, computed by the same TLC run
    bv = json.loads(env["BK_VERDICT"].read_text())
    assert bv["n"] == len(cases)
    if bv["at_lo"] == 0 or bv["at_hi"] == 0 or bv["inside"] == 0:
        raise RuntimeError(f"vacuous delay verdict {bv}")
    for i in bv["bad"]:
        c = cases[i - 1]
        ctx.violation(f"delay-fn:{c['fn'].rstrip('()')}:{'above-max' if c['d'] > c['max'] else 'outside-band'}", c)

    phases["trace_validation"] = round(time.time() - t0, 1)

    # ---- evidence ---------------------------------------------------------------------------------------------------------------
    sleeps = [e for r in runs for e in r["ev"] if e["a"] == "Sleep"]
    distinct_seq = {(tuple(map(tuple, r["faults"])), r["end"]) for r in runs if len(r["faults"]) >= 1}
    ctx.cov.update(
        traces_validated_against_impl=len(runs),
        evaluations=len(runs) + len(cases),
        distinct_nontrivial=len(distinct_seq),
        exhaustive=True,
        rule=(f"TLC explores Retry exhaustively for up to {maxfail} failures over all 10 classes; fault plans = all class sequences of TLC's graph with "
              f"<= {full} failures ({n_exh} plans x {nvar} concretisations), {n_cover} walks covering every edge of the graph, every exception of the "
              f"table alone and after 5 transient failures ({n_rep}), {n_rand} random walks to {maxfail} failures; every execution validated by TLC; "
              f"evaluations = executions + delay-function calls judged by TLC; distinct_nontrivial = distinct (class sequence, ending) with >= 1 failure"),
        trace_events=nev, distinct_executions=len(lines),
        graph={"nodes": len(graph.nodes), "edges": len(set(graph.edges)), "edges_expected_of_impl": len(must), "edges_exercised": len(covered & must) ,
               "grey_zone_states": len(grey), "grey_zone_resolved_by_raise": grey_raises, "grey_zone_resolved_by_retry": grey_retries},
        classes_without_inhabitant=unreal,
        exceptions_in_table=len(table), exceptions_used=len(H.used),
        sleeps_recorded=len(sleeps), max_sleep_ms=max((e["d"] for e in sleeps), default=None), min_sleep_ms=min((e["d"] for e in sleeps), default=None),
        phase_end_s=phases, longest_fault_sequence=max(len(r["faults"]) for r in runs),
        delay_fn_cases={"n": bv["n"], "at_lower_bound": bv["at_lo"], "at_upper_bound": bv["at_hi"], "strictly_inside": bv["inside"]},
    )
    if len(H.used) != len(table):
        raise RuntimeError(f"exceptions never injected: {sorted(set(r['name'] for r in table) - set(H.used))}")
    for r in (runs[len(runs) // 3], runs[n_exh * nvar + 3] if len(runs) > n_exh * nvar + 3 else runs[-1], runs[-1]):
        ctx.sample({"faults": r["faults"], "exceptions": r["names"], "end": r["end"], "entry": r["entry"],
                    "events": [[e["a"], e["d"]] if e["a"] == "Sleep" else e["a"] for e in r["ev"]], "raised": r["raised"]})
    ctx.sample({"delay_case": cases[len(cases) // 2]})
    ctx.assume("an exception is judged through its class: the subset of {limited, rate, transient} given by the table in checks/_retry_faults.py "
               "(cross-checked at every injection against the three real classifier functions by TLC)",
               "HAIL_DONT_RETRY_500 is unset",
               "the limited-retry clause is read as: a limited-only error among the first five failures is retried, none is retried once five "
               "limited-only retries were granted; in between (tries > 5 after transient failures) both answers are accepted (utils.py raises)",
               "virtual time: the slept delay is the difference of the loop clock between the failure and the next invocation",
               "aiodocker.exceptions.DockerError is represented by a stand-in with the same attributes (status, message)")


def _band_ok(tries, d):
    c = 1000 * (1 << min(tries, 30))
    return min(c // 2, 60000) <= d <= min(c, 60000)
