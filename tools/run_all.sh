#!/bin/sh
# usage: tools/run_all.sh <tier> [seed] [ids...]  -- runs checks sequentially, prints one summary line per check
tier=${1:-quick}; seed=${2:-0}; shift; shift
ids="$@"
[ -z "$ids" ] && ids=$(cat claimed.txt)
make -s setup >/dev/null 2>&1
for c in $ids; do
  s=$(date +%s)
  VERIF_SEED=$seed ./check $c --tier $tier > build/run_$c.$tier.log 2>&1; rc=$?
  e=$(date +%s)
  echo "$c tier=$tier seed=$seed exit=$rc wall=$((e-s))s $(grep -c KNOWN-FINDING build/run_$c.$tier.log) known $(grep -h 'signature:' build/run_$c.$tier.log | head -2 | tr '\n' ';')"
done
