#!/bin/sh
# usage: tools/eval_seed.sh <seed-dir with patch.diff> <check ids...>
# Applies the patch to a scratch worktree of /repo HEAD, runs the pinned tests and the given checks (quick) against it.
d="$1"; shift
name=$(basename "$d")
wt=/tmp/evalwt-$name
git -C /repo worktree remove --force $wt >/dev/null 2>&1
git -C /repo worktree add --detach $wt HEAD -q || exit 2
if ! git -C $wt apply "$d/patch.diff"; then echo "$name: PATCH DOES NOT APPLY"; git -C /repo worktree remove --force $wt; exit 2; fi
t=$(cd $wt && /venv/bin/python -m pytest -q -p no:cacheprovider auth/test/test_auth_utils.py 2>&1 | tail -1)
echo "$name: pinned tests: $t"
cd /verif
for c in "$@"; do
  VERIF_REPO=$wt timeout 1500 ./check $c --tier quick > /tmp/eval-$name-$c.log 2>&1; rc=$?
  sig=$(grep -h "signature:" /tmp/eval-$name-$c.log | head -3 | tr '\n' ';')
  echo "$name: $c exit $rc $sig"
done
git -C /repo worktree remove --force $wt
