#!/bin/sh
# usage: tools/eval_seed.sh <seed id, e.g. C04-3> [out dir]
# Applies seeded/<id>/patch.diff to a scratch worktree of /repo HEAD, runs the pinned tests, the demonstration (if any) on the
# unchanged tree and on the patched worktree, and the quick tier of the property's check against the patched worktree.
ROOT=$(cd "$(dirname "$0")/.." && pwd)
name=$1; out=${2:-$ROOT/build/seed_eval}; d=$ROOT/seeded/$name; pid=${name%-*}
mkdir -p $out; res=$out/$name.txt; : > $res
wt=/tmp/evalwt-$name
git -C /repo worktree remove --force $wt >/dev/null 2>&1
git -C /repo worktree add --detach $wt HEAD -q || { echo "worktree failed" >> $res; exit 2; }
if ! git -C $wt apply "$d/patch.diff" 2>>$res && ! git -C $wt apply --3way "$d/patch.diff" 2>>$res; then echo "PATCH DOES NOT APPLY" >> $res; git -C /repo worktree remove --force $wt; exit 2; fi
t=$(cd $wt && /venv/bin/python -m pytest -q -p no:cacheprovider auth/test/test_auth_utils.py 2>&1 | tail -1)
echo "pinned: $t" >> $res
export PYTHONDONTWRITEBYTECODE=1
if [ -f $d/demo.py ]; then
  (cd $d && SEED_NUMPY_DIR=$ROOT/build/pydeps SEED_WT=/repo SEED_WORKTREE=/repo SEED_ROOT=/repo REPO_ROOT=/repo WORKTREE=/repo timeout 300 /venv/bin/python demo.py /repo > $out/$name.demo.clean 2>&1; echo "demo clean exit $?" >> $res)
  (cd $d && SEED_NUMPY_DIR=$ROOT/build/pydeps SEED_WT=$wt SEED_WORKTREE=$wt SEED_ROOT=$wt REPO_ROOT=$wt WORKTREE=$wt timeout 300 /venv/bin/python demo.py $wt > $out/$name.demo.patched 2>&1; echo "demo patched exit $?" >> $res)
else echo "no demo (scenario only)" >> $res; fi
cd $ROOT
VERIF_REPO=$wt timeout 3000 ./check $pid --tier quick > $out/$name.check.log 2>&1; rc=$?
sig=$(grep -h "signature:" $out/$name.check.log | head -4 | sed 's/^ *signature: //' | tr '\n' ';')
echo "check $pid exit $rc $sig" >> $res
git -C /repo worktree remove --force $wt
