#!/venv/bin/python
"""Writes seeded/RESULTS.md and the detected_by fields of seeded/<id>/meta.json from build/seed_eval/<id>.txt."""
import json, os, re, pathlib
root = pathlib.Path(__file__).resolve().parent.parent
rows = []
for d in sorted(os.listdir(root / "seeded")):
    if not re.match(r"C\d\d-\d+$", d):
        continue
    mp = root / "seeded" / d / "meta.json"
    m = json.loads(mp.read_text()) if mp.exists() else {}
    rf = root / "build" / "seed_eval" / f"{d}.txt"
    res = rf.read_text() if rf.exists() else ""
    mm = re.search(r"check (\S+) exit (\d+)\s*(.*)", res)
    sigs = [x.strip() for x in (mm.group(3) if mm else "").split(";") if x.strip()]
    rc = int(mm.group(2)) if mm else None
    demo = "re-run: clean 0 / patched 1" if ("demo clean exit 0" in res and "demo patched exit 1" in res) else ("scenario" if "no demo" in res else ("demo: " + " ".join(re.findall(r"demo \w+ exit \d+", res))))
    pinned = (re.search(r"pinned: (.*)", res) or [None, "?"])[1]
    if res:
        m["detected"] = rc == 1
        m["detected_by"] = {m.get("property", d.split("-")[0]): sigs}
        m["final_evaluation"] = {"pinned_suite": pinned, "demonstration": demo, "check_exit": rc}
        mp.write_text(json.dumps(m, indent=1))
    fp = m.get("first_pass")
    first = "" if fp is None else ("reported" if fp.get("exit") == 1 else "MISSED")
    rows.append((d, m.get("property", ""), m.get("round", 1), "yes" if rc == 1 else (("no (assessed in meta.json: benign or outside the statement)" if m.get("assessment") else "NO") if rc == 0 else f"exit {rc}"), "; ".join(sigs[:2]), first, demo,
                 (m.get("summary") or "")[:150].replace("|", "/").replace("\n", " ")))
out = ["# Seeded changes and which checks report them", "",
       "Each change was written by an independent sub-agent that saw only the property text (from round two on also the list of mechanisms",
       "already used) and its own git worktree of populationgenomics/hail. Every patch applies to /repo HEAD and keeps the pinned suite green.",
       "`tools/eval_all_seeds.sh` re-evaluates all of them (pinned suite, demonstration on the unchanged and on the patched tree, quick tier of the",
       "check of the property against the patched worktree) and regenerates this file. Column *first pass*: what the check said when the change was",
       "first evaluated, before any strengthening (rounds two and three; for round one see the list at the end).", "",
       "| id | property | round | reported | signatures (first two) | first pass | demonstration | change |", "|---|---|---|---|---|---|---|---|"]
for r in rows:
    out.append("| " + " | ".join(str(x) for x in r) + " |")
n = len(rows)
out += ["", f"{sum(1 for r in rows if r[3] == 'yes')} of {n} reported by the quick tier of the check of their property.", ""]
tail = (root / "seeded" / "ROUND1_MISSES.md")
if tail.exists():
    out += tail.read_text().splitlines()
(root / "seeded" / "RESULTS.md").write_text("\n".join(out) + "\n")
print(f"{n} seeds, {sum(1 for r in rows if r[3] == 'yes')} reported")
