#!/bin/sh
# usage: tools/eval_all_seeds.sh [parallelism]   -- evaluates every seeded change (seeds of one property run one after the other)
par=${1:-4}
cd /verif
ls seeded | grep '^C[0-9][0-9]-' | sed 's/-.*//' | sort -u | xargs -P $par -I{} sh -c 'for n in $(ls /verif/seeded | grep "^{}-"); do /verif/tools/eval_seed.sh $n; done'
/venv/bin/python tools/seed_results.py
