#!/bin/sh
# usage: tools/eval_all_seeds.sh [parallelism]   -- evaluates every seeded change (seeds of one property run one after the other)
ROOT=$(cd "$(dirname "$0")/.." && pwd)
par=${1:-4}
cd $ROOT
make -s setup >/dev/null 2>&1
export ROOT
ls seeded | grep '^C[0-9][0-9]-' | sed 's/-.*//' | sort -u | xargs -P $par -I{} sh -c 'for n in $(ls $ROOT/seeded | grep "^{}-"); do $ROOT/tools/eval_seed.sh $n; done'
/venv/bin/python tools/seed_results.py
